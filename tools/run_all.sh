#!/bin/bash
# Run every claimed check (quick tier by default) on /repo's current working tree; evidence files are rewritten.
# usage: tools/run_all.sh [quick|thorough] [ids...]
cd "$(dirname "$0")/.."
TIER=${1:-quick}; shift || true
IDS="$@"
[ -n "$IDS" ] || IDS=$(python3 -c "import json; print(' '.join(c['property_id'] for c in json.load(open('MANIFEST.json'))['checks']))")
[ -z "$(git -C /repo status --porcelain --untracked-files=no)" ] || echo "WARNING: /repo has local modifications"
mkdir -p out/logs
pids=()
for id in $IDS; do
  ( ./check $id --tier $TIER > out/logs/$id.$TIER.log 2>&1; echo "$id exit=$? $(grep -E '^(PASS|VIOLATION|UNDECIDED|KNOWN-FINDING)' out/logs/$id.$TIER.log | head -3 | cut -c1-160)" ) &
  pids+=($!)
  # at most 2 checks at a time (each uses several cores and up to ~35 GB)
  while [ $(jobs -r | wc -l) -ge 2 ]; do sleep 2; done
done
wait
python3-vt - <<'PY'
import json, jsonschema, glob
sch = json.load(open('/root/.vp/EVIDENCE.schema.json'))
for f in sorted(glob.glob('/verif/evidence/*.json')):
    e = json.load(open(f))
    try:
        jsonschema.validate(e, sch); ok = 'valid'
    except Exception as ex:
        ok = 'INVALID: ' + str(ex)[:100]
    c = e['coverage']
    print(f.split('/')[-1], e['tier'], c.get('verdict'), c.get('obligations'), c.get('discharged'), ok)
PY

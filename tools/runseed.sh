#!/bin/bash
# usage: runseed.sh <seed-id> <check>...   (scratch worktree + HEX_REPO)
s=$1; shift
W=/tmp/seedrun_$s
git -C /repo worktree remove --force $W >/dev/null 2>&1
git -C /repo worktree add -q --detach $W HEAD || exit 2
git -C $W apply /verif/seeded/$s/patch.diff || exit 2
cd /verif
for c in "$@"; do echo "== $s on $c"; HEX_REPO=$W ./check $c --tier quick 2>&1 | grep -E '^(VIOLATION|UNDECIDED|PASS|KNOWN|CONTRACT|\()' | cut -c1-400; done
git -C /repo worktree remove --force $W >/dev/null 2>&1

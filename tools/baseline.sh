#!/bin/bash
# Build /repo's working tree with the HEX_VERIF guard OFF in a scratch directory and run the
# repository's unit-test executable (the 129 Boost.Test cases of the pinned baseline).
# usage: tools/baseline.sh [repo-dir]   -> prints "passed=<n> failed=<n>", exit 0 iff failed==0 and passed>=129
set -u
REPO=${1:-/repo}
B=$(mktemp -d /var/tmp/hexbaseline.XXXXXX)
trap 'rm -rf "$B"' EXIT
cmake -G Ninja -S "$REPO" -B "$B" -DUSE_VERILATOR=NO -DCMAKE_BUILD_TYPE=RelWithDebInfo >"$B/cmake.log" 2>&1 || { tail -20 "$B/cmake.log"; echo "configure failed"; exit 2; }
cmake --build "$B" --target UnitTests -j 16 >"$B/build.log" 2>&1 || { tail -40 "$B/build.log"; echo "build failed"; exit 2; }
( cd "$B/tests/unit" && ./UnitTests --log_level=test_suite --report_level=no >"$B/ut.log" 2>&1 ); rc=$?
passed=$(grep -c 'Leaving test case' "$B/ut.log")
failed=$(grep -c 'error: in "' "$B/ut.log")
echo "passed_cases_run=$passed error_lines=$failed unit_test_rc=$rc"
tail -3 "$B/ut.log"
[ "$rc" -eq 0 ] && [ "$passed" -ge 129 ]

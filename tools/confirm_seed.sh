#!/bin/bash
# Confirm a seeded change in a scratch worktree: it applies, builds, passes the 129 unit tests, its demonstration
# fails with the change and passes without it.  usage: tools/confirm_seed.sh <SEED-ID>   (e.g. C02-01)
# Writes seeded/<ID>/confirm.log; exit 0 iff all four facts hold.
set -u
ID=$1
HERE=$(cd "$(dirname "$0")/.." && pwd)
S=$HERE/seeded/$ID
W=/tmp/cs_$ID
LOG=$S/confirm.log
: > "$LOG"
say() { echo "$@" | tee -a "$LOG"; }
git -C /repo worktree remove --force "$W" >/dev/null 2>&1
git -C /repo worktree add -q --detach "$W" HEAD || { say "worktree failed"; exit 2; }
trap 'git -C /repo worktree remove --force "$W" >/dev/null 2>&1; rm -rf "$W"' EXIT
build() { # $1 = build dir name
  cmake -G Ninja -S "$W" -B "$W/$1" -DUSE_VERILATOR=NO -DCMAKE_BUILD_TYPE=RelWithDebInfo >/dev/null 2>&1 && cmake --build "$W/$1" --target UnitTests hexsim hexasm xcmp -j 8 >/dev/null 2>&1
}
buildtb() { # $1 = dir
  (cd "$W" && verilator --cc --exe --build -j 8 --top-module hex --prefix Vhex_pkg --trace -Wno-fatal -CFLAGS "-O1 -w -std=c++17 -I$W" --Mdir "$W/$1" -o hextb verilog/hex_pkg.sv verilog/hex.sv verilog/processor.sv verilog/memory.sv hextb.cpp hex.cpp >/dev/null 2>&1)
}
demo() { # uses $W/_b and $W/_v
  case $ID in
    C02-*|C04-*|C05-*|C17-*|C07-*|C15-*) (cd "$S" && timeout 600 bash ./run_demo.sh "$W/_b") ;;
    C03-*|C06-*) buildtb _v && (cd "$S" && timeout 600 bash ./run_demo.sh "$W/_b" "$W/_v") ;;
    C12-*) (cd "$S" && timeout 600 bash ./run_demo.sh "$W" "$W/_b") ;;
    *) (cd "$S" && timeout 1200 bash ./run_demo.sh "$W") ;;
  esac
}
git -C "$W" apply "$S/patch.diff" || { say "patch does not apply to HEAD $(git -C /repo rev-parse --short HEAD)"; exit 1; }
say "patch applies to $(git -C /repo rev-parse --short HEAD)"
build _b || { say "build with change FAILED"; exit 1; }
say "build with change ok"
( cd "$W/_b/tests/unit" && ./UnitTests >"$W/ut.log" 2>&1 ); rc=$?
say "unit tests with change: rc=$rc $(tail -1 "$W/ut.log")"
[ $rc -eq 0 ] || exit 1
demo >"$W/demo1.log" 2>&1; d1=$?
say "demo with change: exit $d1 (expected non-zero)"; tail -3 "$W/demo1.log" >> "$LOG"
git -C "$W" apply -R "$S/patch.diff"
rm -rf "$W/_b" "$W/_v"
build _b || { say "build without change FAILED"; exit 1; }
demo >"$W/demo0.log" 2>&1; d0=$?
say "demo without change: exit $d0 (expected 0)"; tail -3 "$W/demo0.log" >> "$LOG"
if [ $d1 -ne 0 ] && [ $d0 -eq 0 ]; then say "CONFIRMED $ID"; exit 0; else say "NOT CONFIRMED $ID"; exit 1; fi

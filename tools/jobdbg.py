#!/usr/bin/env python3
"""development aid: show failed obligations (with cex_ values / selected trace vars) of one job's cbmc.json"""
import json, sys, re
f = sys.argv[1]; pat = sys.argv[2] if len(sys.argv) > 2 else r"^cex_"
d = json.load(open(f))
for e in d:
    if "result" in e:
        for p in e["result"]:
            if p["status"] != "SUCCESS":
                print("==", p["property"], p.get("description", "")[:150])
                vals = {}
                for s in p.get("trace", []):
                    if s.get("stepType") == "assignment" and re.search(pat, s.get("lhs", "")):
                        vals[s["lhs"]] = s["value"].get("data")
                for k, v in vals.items():
                    print("    ", k, "=", v)

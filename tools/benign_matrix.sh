#!/bin/bash
# Run every behaviour-preserving edit in benign/<id>/ (patch.diff, desc.txt, checks = list of check ids) against the
# listed checks, each in a scratch worktree of /repo (HEX_REPO).  Expected: exit 0 (or 2 = undecided, never 1).
# Writes benign/MATRIX.txt.    usage: tools/benign_matrix.sh [id...]
cd "$(dirname "$0")/.."; mkdir -p out/logs
IDS="$@"; [ -n "$IDS" ] || IDS=$(ls benign | grep -E '^[a-z]+-[0-9]+$')
OUT=benign/MATRIX.txt
[ -n "$*" ] && OUT=out/logs/benign_partial_$$.txt
echo "# edit | check | exit | verdict   (tools/benign_matrix.sh at /repo $(git -C /repo rev-parse --short HEAD), /verif $(git rev-parse --short HEAD))" > $OUT.tmp
for s in $IDS; do
  W=/tmp/benignrun_$s
  git -C /repo worktree remove --force $W >/dev/null 2>&1
  git -C /repo worktree add -q --detach $W HEAD || continue
  if git -C $W apply "$PWD/benign/$s/patch.diff"; then
    for c in $(cat benign/$s/checks); do
      HEX_REPO=$W ./check $c --tier quick > out/logs/benign_${s}_$c.log 2>&1; rc=$?
      line=$(grep -E '^(VIOLATION|UNDECIDED|PASS|UNDECIDED-PROOF|KNOWN-FINDING)' out/logs/benign_${s}_$c.log | head -2 | tr '\n' ' ' | cut -c1-220)
      echo "$s | $c | $rc | $line" >> $OUT.tmp
    done
  else
    echo "$s | - | - | patch does not apply" >> $OUT.tmp
  fi
  git -C /repo worktree remove --force $W >/dev/null 2>&1
done
mv $OUT.tmp $OUT
cat $OUT

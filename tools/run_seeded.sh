#!/bin/bash
# Apply a seeded change to /repo, run the given checks against it, undo it straight afterwards.
# usage: tools/run_seeded.sh <SEED-ID> <CHECK-ID>...     e.g. tools/run_seeded.sh C02-01 C02
set -u
ID=$1; shift
HERE=$(cd "$(dirname "$0")/.." && pwd)
[ -z "$(git -C /repo status --porcelain --untracked-files=no)" ] || { echo "/repo has local modifications"; exit 2; }
git -C /repo apply "$HERE/seeded/$ID/patch.diff" || { echo "patch does not apply"; exit 2; }
trap 'git -C /repo checkout -- .' EXIT
for c in "$@"; do
  echo "=== seeded $ID: ./check $c"
  ( cd "$HERE" && ./check "$c" --tier quick ); echo "exit=$?"
done

#!/usr/bin/env python3
"""regenerate MANIFEST.json from the table below (kept in one place so it always validates)."""
import json, os, subprocess
HERE = os.path.dirname(os.path.dirname(os.path.abspath(__file__)))
CHECKS = {
 "C04": dict(cat="proof", design="DESIGN.md §4 C04",
   text="Contracts on numNibbles (loop invariant + decreases), InstrImm::getSize, the instruction arm of emitProgramBin and the literal path, "
        "extracted mechanically from hexasm.hpp on every run, discharged by CBMC for all 2^32 operand values x 12 mnemonics; the top-level "
        "round-trip lemma decode(emit(v,getSize(v)))==v is a loop-free (fully unwound, unwinding assertions) harness over the full symbolic domain. "
        "Thorough re-discharges on cvc5 and sweeps the real compiled encoder over all 2^32 x 12 natively.",
   note="Trusted: CBMC+MiniSat, extractor rule list (must-fire counts, native fidelity run each time), isa_decode_prefix transcribed from hexb.pdf, "
        "ostream::put / strtoul stubs, gcc's implementation-defined int conversions. Lexer tokenisation is not under contract.",
   technique="CBMC function + loop contracts (goto-instrument --dfcc) on mechanically extracted C; counterexample replay on real hexasm"),
 "C02": dict(cat="proof", design="DESIGN.md §4 C02",
   text="Hoare triple for one iteration of hexsim's run() loop (body, syscall, HexSimIO extracted mechanically each run) against isa_step transcribed from "
        "hexb.pdf: for all 2^128 register states, all memory contents, all defined instruction bytes, in-range addresses: registers, stored word + memory "
        "frame (ghost index), running/exit value, I/O event, lazy file-open discipline, connected[] frame; plus run()'s loop condition/return; HexSimIO::output/input and Processor::syscall additionally carry dfcc-enforced function contracts (callees replaced by contracts). Loop-free, so "
        "the CBMC result is complete for one step; whole runs follow by induction over steps (paper glue). State the interpreter might carry between iterations (locals of run(), extra members) is treated as arbitrary in the step; a BOUNDED job (K=2/3 consecutive iterations entered the way run() enters its loop, not counted as proved) and a native multi-step sweep look at what a single step cannot see.",
   note="Trusted: CBMC+MiniSat, extractor rules (must-fire counts + native fidelity run real Processor vs extracted step vs isa_step each time), isa_step "
        "transcription, iostream stubs. Tracing off / truncateInputs on (defaults); tracing covered by C12.",
   technique="CBMC contract harness (pre/post + frame via ghost index) on mechanically extracted C vs executable ISA spec; counterexample replay on real hexsim::Processor"),
 "C12": dict(cat="proof", design="DESIGN.md §4 C12",
   text="2-safety by sequential self-composition: from two arbitrary host states (every member and the whole 200000-word array havoced) the extracted constructor "
        "initialiser list + load() leave all fields a run can read equal, image words loaded and the rest zero (symbolic image length); the C02 step contract "
        "re-proved with tracing on and the real trace()/traceSyscall(); and with tracing off (the cycle counter advances once per instruction in both modes, so --max-cycles cuts a run short at the same point); dfcc-enforced assigns clauses show trace functions write only the ghost text log; run() returns exitCode.",
   note="Trusted: CBMC+MiniSat, extractor rules, FILE_* stubs for ifstream, EV_FMT/EV_ARG abstraction of boost::format rendering, lookupSymbol replaced by its contract. "
        "Assumes the header's image length fits memory and is present in the file. Native stage builds the real Processor over dirty/clean storage.",
   technique="CBMC contracts: self-composition harness + dfcc assigns enforcement on mechanically extracted C; native confirmation on real hexsim::Processor"),
 "C03": dict(cat="proof", design="DESIGN.md §4 C03",
   text="Contract on one hextb clock (rising-edge eval + falling-edge eval) of the C that Verilator generates from verilog/*.sv, converted to C each run: from every "
        "settled state with the inductive invariant (oreg_q&0xF)==0 and in-range addresses, registers, stored word and memory frame (ghost index over all 2^19 words) "
        "equal isa_step; nothing changes on the falling edge; syscall request raised exactly for SVC with o_syscall==areg&3; post-state settled and invariant "
        "re-established. Verilator's convergence loops unwound 4 with unwinding assertions. Base case: from every power-on state, a clock edge under reset (and the asynchronous assertion of reset) yields the simulator's constructor state (values read from hexsim.hpp each run), releasing reset keeps it.",
   note="Trusted: CBMC+MiniSat, Verilator 5.006 as the RTL semantics, vl2c rule list + VL_* helper prelude, isa_step. Reset window of the testbench in C13; whole runs by induction (paper).",
   technique="CBMC contract harness on Verilator-generated code converted to C vs executable ISA spec; replay on natively Verilated model"),
 "C16": dict(cat="proof", design="DESIGN.md §4 C16",
   text="Product harness over the Verilator-generated C of processor.sv and of each shipped processor.v: equal registers and arbitrary equal previous inputs, arbitrary new "
        "inputs (all clock/reset edge combinations, all i_f_data/i_d_data): outputs equal after settling, registers+outputs+edge history equal after the evaluation. No preconditions.",
   note="Trusted: CBMC+MiniSat, Verilator 5.006, vl2c rules. Sequence equivalence by induction over evaluations (harness state arbitrary and re-established).",
   technique="CBMC product (relational) harness on Verilator-generated code converted to C; replay on three natively Verilated models"),
 "C13": dict(cat="proof", design="DESIGN.md §4 C13",
   text="hextb.cpp's run() (prologue, loop condition, loop body) and handleSyscall() extracted to C over the Verilator-generated model (incl. generated "
        "eval_initial/eval_settle): for every power-on state (all Verilated fields arbitrary within their widths, memory arbitrary) the RESET_END ticks of the reset "
        "window (code constant, fully unwound with unwinding assertions) service a system call only from the start state with memory intact, change no memory word "
        "(ghost index), end in pc=areg=breg=oreg=0, and the next rising edge releases reset and executes address 0. hextb's load() is under contract too: from every power-on memory, afterwards each RTL memory word is the file's word or zero (confirmed on the real testbench by programs that exit with a never-written word under several seeds).",
   note="Trusted: CBMC+MiniSat, Verilator 5.006 (same generator options as the CMake build), vl2c/tbx rule lists, tick counter for VerilatedContext time. "
        "Assumes the image's stack-pointer word is inside memory (only relevant when the first instruction is SVC). Remainder of the run: C03 per clock, C06 for the shim.",
   technique="CBMC contract harness over extracted testbench loop + Verilator-generated C, all power-on states; replay through hextb.cpp's own run() on the native model"),
 "C05": dict(cat="proof", design="DESIGN.md §4 C05",
   text="Contracts on numNibbles/instrLen (function + loop contracts) and an inductive invariant of one layout pass of CodeGen::resolveLabels over a directive list of "
        "symbolic length, discharged as generated base/step/exit obligations on the mechanically extracted loop body and Directive class family (ghost reference k / target t; "
        "ghost adjacent pair for the offset chain); the exit lemma of a changeless pass gives 'address after the instruction + operand == label address' / 'operand == word address "
        "or rejected', and a completeness invariant with a moving ghost witness shows a program is rejected for alignment only if some absolute reference's label is unaligned in the final layout; per-directive Hoare triple for emitProgramBin's loop body (bytes decode by the ISA prefix rule to the resolved operand, running offset == layout offset); "
        "header-word lemma. numNibbles/instrLen are extracted whatever their loop shape (unrecognised shapes are unwound 9x with unwinding assertions: complete for a width-bounded loop). Termination: lengths never shrink and are <= 8, and a pass that grows no reference moves no label (inductive invariant, unbounded in program length); that the sum of (8-length) then bounds the "
        "number of passes by 7n+2 is paper glue. A BOUNDED cross-check of the measure on programs of <=4/6 directives is kept and not counted as proved.",
   note="Trusted: CBMC+MiniSat, extractor rules (dirx/asmx), WF() of directive objects (constructors unverified; instantiated at visited/dereferenced elements), std::map lookup = "
        "declaring directive, outer loop/constructor/emitBin matched textually, composition of the lemmas on paper. Native sweep of the real assembler is the counterexample search + replay. A second native stage assembles 1024 programs whose reference operand is exactly +-(m*16^k+{-1,0,1}) (images up to 790000 bytes).",
   technique="CBMC code contracts + generated base/step/exit invariant obligations on mechanically extracted C; native replay on real hexasm"),
 "C17": dict(cat="proof", design="DESIGN.md §4 C17",
   text="Per-directive obligation on the extracted loop bodies of emitProgramBin and emitProgramText run on the same object and state: the listed offset is where the encoding "
        "starts, the listed size is the number of bytes written, the listed operand is the operand decoded from the bytes by the ISA prefix rule; offsets chained in source order "
        "(pass.chain invariant) so only alignment/padding zeros lie between items; operands are final at the fixed point (C05 exit lemma).",
   note="Trusted: as C05; text rendering by boost::format/std::to_string is dropped (the tuple of printed values is compared). xcmp -S / hexasm --instrs entry points are text-checked to print through emitProgramText.",
   technique="CBMC contract harness on mechanically extracted C (shared with C05); native replay compares real listings with real images"),
 "C15": dict(cat="proof", design="DESIGN.md §4 C15",
   text="Mechanisms proved: (1) with tracing on and the real trace(), the extracted run() loop body prints (instruction count before the step, byte address fetched, symbol and pc-offset, "
        "mnemonic of the fetched opcode, byte&0xF) and then executes exactly that instruction (== isa_step), for all states; (2) lookupSymbol under a function + loop contract over a table of "
        "symbolic length (no out-of-bounds read; returns an entry with offset<=pc<next offset, none below the first); with non-decreasing offsets it is the last entry at or below pc; "
        "(3) emitProgramBin records one symbol per FUNC/PROC with the address of the next emitted byte; (4) the loop bodies of emitDebugInfo (writer) and of load()'s symbol reader are under "
        "inductive invariants over a table of symbolic length: the table hexsim loads is the table hexasm recorded, entry by entry. A precision on a string directive of the trace format (column cut short) is an obligation of its own. The corollary 'procedure entries in a trace equal the source call sequence' "
        "needs compiler correctness (C01) and is assumed, not claimed.",
   note="Trusted: CBMC+MiniSat, extractor rules, EV_FMT/EV_ARG abstraction of boost::format, unique symbol names for debugInfoMap, instrEnumToStr table. In the round trip the names are ids (string bytes dropped) and the "
        "enclosing function structure is compared textually. Native stage: real hexasm -> real hexsim -t, every trace line checked against an ISA run.",
   technique="CBMC function/loop contracts + contract harness on mechanically extracted C; native trace comparison on the real tools"),
 "C07": dict(cat="proof", design="DESIGN.md §4 C07",
   text="The folding switches of xcmp's ConstProp are extracted as fold_bin/fold_un; the run-time side is the REAL xcmp's output (compiler rebuilt from the working tree each run) executed "
        "on the extracted hexsim step with the operand variables' DATA words symbolic (banked memory, cbmc --paths lifo, loop-free programs fully unwound with unwinding assertions): "
        "for every operator, for all 2^64 operand pairs, exit value == fold(op,a,b); for a family of placements (v op (c1 op2 c2), (c1 op2 c2) op v, v op c, c op v, val names, nested) "
        "the literal-constant image equals the all-variables image for ALL v. The family includes a constant against an operand that needs a register of its own (compound sub-expression) for every operator. Proof over operand values; shapes and embedded constants are a bounded family (labelled so). "
        "The known relational-overflow divergence is a split obligation reported as KNOWN-FINDING.",
   note="Trusted: CBMC+MiniSat path exploration, extractor rules, xcmp binary as generator of run-time code, C02/C12 for the simulator. Folder's int +,-,unary- verified under two's-complement "
        "wrap (signed-overflow check off for this unit: UB by the standard, C09's business). and/or/~ over boolean operands. Operands that are function calls are out of reach of the path back end (timeouts): a native stage runs 54 such programs on the real xcmp + hexsim (constant as val vs assigned variable) instead -- sampled, not proved.",
   technique="CBMC symbolic execution of real compiler output on mechanically extracted simulator step vs extracted folder; replay on real xcmp + hexsim"),
 "C06": dict(cat="proof", design="DESIGN.md §4 C06",
   text="Lock-step simulation relation between the extracted hexsim (run() loop body, syscall, HexSimIO) and the extracted hextb (run() loop body split at the system-call sampling "
        "`if`, handleSyscall) over the Verilator-generated model, in one translation unit: from R (registers equal, memories agree on loaded-or-written words, stream-file state equal, "
        "reset asserted exactly while time<RESET_END, nets settled) one hexsim step and [tail of tick t, tick t+1, head of tick t+2] produce the same I/O event, input consumption, "
        "termination and exit value and re-establish R -- for all register values, memory contents, defined instructions and tick numbers; base case from every power-on state to the "
        "first R-point. Whole runs by induction (paper glue).",
   note="Trusted: CBMC+MiniSat, Verilator 5.006, extractor rule lists, isa.h only for the property's quantifier. Assumes every word a step reads was loaded or written (the property's quantifier), "
        "no READ into the SVC's own word, both loaders place the same image words. Banner, --max-cycles, VCD, OS exit-status truncation outside the contract. Native stage runs real hexsim vs real hextb.",
   technique="CBMC relational (lock-step) contract harness over two mechanically extracted implementations; native comparison of the real tools"),
}
NA = {
 "C01": "compiler correctness over all X programs: needs an X semantics and a simulation proof over 3200 lines of STL C++ that CBMC cannot parse; no per-function contract expresses it (DESIGN §5)",
 "C08": "every access of every execution of every compiled program: compiler correctness over emitted code; not a per-function contract (DESIGN §5)",
 "C09": "whole-tool robustness over all byte strings through iostream/std::string/std::map/unique_ptr/exceptions, none of which survive extraction to C (DESIGN §5)",
 "C10": "same as C09 for hexasm; arithmetic-UB sub-facts are discharged inside C04/C05 but do not decide the property (DESIGN §5)",
 "C11": "2-safety over heap contents of the whole compiler run; needs write-before-read of every member through all visitor passes, not expressible as C contracts here (DESIGN §5)",
 "C14": "process-level exit status / files on disk of four main()s, hinging on C++ exception propagation and overload resolution; outside CBMC's reach (DESIGN §5)",
}
PENDING = {
}
def main():
    checks = []
    for pid in sorted(CHECKS):
        c = CHECKS[pid]
        checks.append({
            "property_id": pid,
            "quick_cmd": "./check %s --tier quick" % pid,
            "thorough_cmd": "./check %s --tier thorough" % pid,
            "evidence_file": "/verif/evidence/%s.json" % pid,
            "replay_cmd_template": "./check %s --replay {path}" % pid,
            "engine": "cbmc-contracts",
            "level_claimed": {"category": c["cat"], "text": c["text"], "design_ref": c["design"]},
            "level_note": c["note"],
            "technique": c["technique"],
        })
    na = [{"property_id": k, "reason": v} for k, v in sorted({**NA, **{k: v for k, v in PENDING.items() if k not in CHECKS}}.items())]
    hooks = []
    try:
        out = subprocess.run(["git", "-C", "/repo", "log", "--format=%h %s"], capture_output=True, text=True).stdout
        hooks = [l.split()[0] for l in out.splitlines() if l.split(" ", 1)[1].startswith("verif-hook:")]
    except Exception:
        pass
    m = {
        "version": 1,
        "setup_cmd": "true",
        "hooks": {"guard": "HEX_VERIF", "enable": "native replay/fidelity harnesses are compiled with -DHEX_VERIF (lib/hv.py build_native); CBMC units are extracted text",
                  "baseline_off_cmd": "tools/baseline.sh /repo", "source_commits": hooks, "add_only": True},
        "engines": [{"name": "cbmc-contracts", "path": "/verif/check", "serves_properties": sorted(CHECKS),
                     "kind_free_text": "mechanical C extraction of /repo functions + CBMC 6.11 code contracts (goto-instrument --dfcc), loop contracts / base-step-exit obligations, native replay on the real C++ and Verilated model"}],
        "checks": checks,
        "not_applicable": na,
        "notes": "Exit codes: 0 held, 1 VIOLATION, 2 undecided/infrastructure (never on the unchanged tree). Known findings: KNOWN_FINDINGS.txt.",
    }
    json.dump(m, open(os.path.join(HERE, "MANIFEST.json"), "w"), indent=1)
    print("wrote MANIFEST.json with %d checks, %d not_applicable" % (len(checks), len(na)))
main()

#!/usr/bin/env python3
"""regenerate MANIFEST.json from the table below (kept in one place so it always validates)."""
import json, os, subprocess
HERE = os.path.dirname(os.path.dirname(os.path.abspath(__file__)))
CHECKS = {
 "C04": dict(cat="proof", design="DESIGN.md §4 C04",
   text="Contracts on numNibbles (loop invariant + decreases), InstrImm::getSize, the instruction arm of emitProgramBin and the literal path, "
        "extracted mechanically from hexasm.hpp on every run, discharged by CBMC for all 2^32 operand values x 12 mnemonics; the top-level "
        "round-trip lemma decode(emit(v,getSize(v)))==v is a loop-free (fully unwound, unwinding assertions) harness over the full symbolic domain. "
        "Thorough re-discharges on cvc5 and sweeps the real compiled encoder over all 2^32 x 12 natively.",
   note="Trusted: CBMC+MiniSat, extractor rule list (must-fire counts, native fidelity run each time), isa_decode_prefix transcribed from hexb.pdf, "
        "ostream::put / strtoul stubs, gcc's implementation-defined int conversions. Lexer tokenisation is not under contract.",
   technique="CBMC function + loop contracts (goto-instrument --dfcc) on mechanically extracted C; counterexample replay on real hexasm"),
}
NA = {
 "C01": "compiler correctness over all X programs: needs an X semantics and a simulation proof over 3200 lines of STL C++ that CBMC cannot parse; no per-function contract expresses it (DESIGN §5)",
 "C08": "every access of every execution of every compiled program: compiler correctness over emitted code; not a per-function contract (DESIGN §5)",
 "C09": "whole-tool robustness over all byte strings through iostream/std::string/std::map/unique_ptr/exceptions, none of which survive extraction to C (DESIGN §5)",
 "C10": "same as C09 for hexasm; arithmetic-UB sub-facts are discharged inside C04/C05 but do not decide the property (DESIGN §5)",
 "C11": "2-safety over heap contents of the whole compiler run; needs write-before-read of every member through all visitor passes, not expressible as C contracts here (DESIGN §5)",
 "C14": "process-level exit status / files on disk of four main()s, hinging on C++ exception propagation and overload resolution; outside CBMC's reach (DESIGN §5)",
}
PENDING = {
 "C02": "claimed by design (DESIGN §4); check not built yet in this round",
 "C03": "claimed by design (DESIGN §4); check not built yet in this round",
 "C05": "claimed by design (DESIGN §4); check not built yet in this round",
 "C06": "claimed by design (DESIGN §4); check not built yet in this round",
 "C07": "claimed by design (DESIGN §4); check not built yet in this round",
 "C12": "claimed by design (DESIGN §4); check not built yet in this round",
 "C13": "claimed by design (DESIGN §4); check not built yet in this round",
 "C15": "claimed by design (DESIGN §4); check not built yet in this round",
 "C16": "claimed by design (DESIGN §4); check not built yet in this round",
 "C17": "claimed by design (DESIGN §4); check not built yet in this round",
}
def main():
    checks = []
    for pid in sorted(CHECKS):
        c = CHECKS[pid]
        checks.append({
            "property_id": pid,
            "quick_cmd": "./check %s --tier quick" % pid,
            "thorough_cmd": "./check %s --tier thorough" % pid,
            "evidence_file": "/verif/evidence/%s.json" % pid,
            "replay_cmd_template": "./check %s --replay {path}" % pid,
            "engine": "cbmc-contracts",
            "level_claimed": {"category": c["cat"], "text": c["text"], "design_ref": c["design"]},
            "level_note": c["note"],
            "technique": c["technique"],
        })
    na = [{"property_id": k, "reason": v} for k, v in sorted({**NA, **{k: v for k, v in PENDING.items() if k not in CHECKS}}.items())]
    hooks = []
    try:
        out = subprocess.run(["git", "-C", "/repo", "log", "--format=%h %s"], capture_output=True, text=True).stdout
        hooks = [l.split()[0] for l in out.splitlines() if l.split(" ", 1)[1].startswith("verif-hook:")]
    except Exception:
        pass
    m = {
        "version": 1,
        "setup_cmd": "true",
        "hooks": {"guard": "HEX_VERIF", "enable": "native replay/fidelity harnesses are compiled with -DHEX_VERIF (lib/hv.py build_native); CBMC units are extracted text",
                  "baseline_off_cmd": "tools/baseline.sh /repo", "source_commits": hooks, "add_only": True},
        "engines": [{"name": "cbmc-contracts", "path": "/verif/check", "serves_properties": sorted(CHECKS),
                     "kind_free_text": "mechanical C extraction of /repo functions + CBMC 6.11 code contracts (goto-instrument --dfcc), loop contracts / base-step-exit obligations, native replay on the real C++ and Verilated model"}],
        "checks": checks,
        "not_applicable": na,
        "notes": "Exit codes: 0 held, 1 VIOLATION, 2 undecided/infrastructure (never on the unchanged tree). Known findings: KNOWN_FINDINGS.txt.",
    }
    json.dump(m, open(os.path.join(HERE, "MANIFEST.json"), "w"), indent=1)
    print("wrote MANIFEST.json with %d checks, %d not_applicable" % (len(checks), len(na)))
main()

/* cprelude.h -- hand-written prelude shared by all extracted C units (trusted base).
 * Only spellings: no behaviour of the verified code lives here. */
#ifndef HEX_CPRELUDE_H
#define HEX_CPRELUDE_H
#include <stdbool.h>
#include <stddef.h>
#include <stdint.h>
#include <stdlib.h>
#include <limits.h>

#ifndef HEX_CBMC
#include <assert.h>   /* assert() kept from the source: an obligation for CBMC, the library macro in native builds */
/* native (fidelity) build of the same text: contract clauses vanish */
#define __CPROVER_requires(x)
#define __CPROVER_ensures(x)
#define __CPROVER_assigns(...)
#define __CPROVER_loop_invariant(x)
#define __CPROVER_decreases(x)
#define __CPROVER_assert(c, m) ((void)0)
#define __CPROVER_assume(c) ((void)0)
#define __CPROVER_cover(c) ((void)0)
#endif

/* reachability goals: under --cover they are cover statements; in dfcc-instrumented builds (where --cover finds no
   goals) they are written as assertions that must FAIL */
#ifdef COVER_BY_ASSERT
#define COVER_GOAL(c) __CPROVER_assert(!(c), "covergoal " #c)
#else
#define COVER_GOAL(c) __CPROVER_cover(c)
#endif

/* C++ exceptions are abstracted to a ghost flag: `throw E(...)` becomes "set flag, return". */
extern bool verif_thrown;
#define VERIF_THROW(what) (verif_thrown = true)

#endif

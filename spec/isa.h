/* isa.h -- the Hex architecture as an executable specification.
 *
 * Transcribed from the reference simulator printed in docs/PDFs/hexb.pdf pp. 6-10 (David May,
 * "hexb", 2014): main loop, svc(), simout(), simin().  NOT derived from hexsim.hpp or from the
 * Verilog.  Two things the PDF leaves open are taken from the wording of properties C02/C12:
 * the exit system call returns mem[sp+2] as the exit value, and stream files are named
 * simout<n> / simin<n>.
 *
 * The step is written so that it never writes memory itself: it *reads* the pre-state memory
 * through a pointer and reports the (at most one) word it stores, so that an implementation can be
 * run on the same memory object afterwards and compared word by word through a ghost index.
 * Plain C, no loops except isa_decode_prefix (bounded by the caller's byte count).
 */
#ifndef HEX_ISA_SPEC_H
#define HEX_ISA_SPEC_H
#include <stdbool.h>
#include <stdint.h>
#include <stddef.h>

#define ISA_MEM_WORDS 200000u /* unsigned int mem[200000] in the reference */

enum { I_LDAM = 0x0, I_LDBM = 0x1, I_STAM = 0x2, I_LDAC = 0x3, I_LDBC = 0x4, I_LDAP = 0x5, I_LDAI = 0x6, I_LDBI = 0x7,
       I_STAI = 0x8, I_BR = 0x9, I_BRZ = 0xA, I_BRN = 0xB, I_OPR = 0xD, I_PFIX = 0xE, I_NFIX = 0xF };
enum { O_BRB = 0x0, O_ADD = 0x1, O_SUB = 0x2, O_SVC = 0x3 };

typedef struct {
  uint32_t pc, areg, breg, oreg;
  bool running;
  uint32_t exit_value; /* meaningful when !running */
} isa_state;

typedef enum { EV_NONE = 0, EV_WRITE = 1, EV_READ = 2, EV_EXIT = 3 } isa_evkind;

typedef struct {
  isa_evkind kind;
  uint32_t stream;     /* the stream word handed to simout/simin */
  bool to_file;        /* stream >= 256 (as a signed int, like the reference's int parameter) */
  unsigned file_index; /* (stream >> 8) & 7 */
  uint8_t byte;        /* byte written (WRITE) */
} isa_event;

typedef struct {
  bool wr;
  uint32_t waddr, wdata;
} isa_write;

/* which pre-state words a step needs to be inside the simulated memory */
typedef struct {
  bool defined;  /* the byte has a defined meaning in this state */
  bool in_range; /* every address used is < ISA_MEM_WORDS */
} isa_status;

#define ISA_RD(mem, a, st) (((a) < ISA_MEM_WORDS) ? (mem)[(a)] : ((st)->in_range = false, 0u))

/* One instruction.  `in_byte` is what simin() returns for this step if it is a READ (getchar /
 * fgetc result, -1 at end of input). */
static inline void isa_step(isa_state *s, const uint32_t *mem, int in_byte, isa_write *w, isa_event *ev, isa_status *st) {
  st->defined = true;
  st->in_range = true;
  w->wr = false; w->waddr = 0; w->wdata = 0;
  ev->kind = EV_NONE; ev->stream = 0; ev->to_file = false; ev->file_index = 0; ev->byte = 0;
  uint32_t word = ISA_RD(mem, s->pc >> 2, st);
  uint32_t inst = (word >> ((s->pc & 3u) << 3)) & 0xFFu; /* pmem[pc], little endian */
  s->pc = s->pc + 1;
  s->oreg = s->oreg | (inst & 0xFu);
  switch ((inst >> 4) & 0xFu) {
  case I_LDAM: s->areg = ISA_RD(mem, s->oreg, st); s->oreg = 0; break;
  case I_LDBM: s->breg = ISA_RD(mem, s->oreg, st); s->oreg = 0; break;
  case I_STAM: if (s->oreg < ISA_MEM_WORDS) { w->wr = true; w->waddr = s->oreg; w->wdata = s->areg; } else st->in_range = false; s->oreg = 0; break;
  case I_LDAC: s->areg = s->oreg; s->oreg = 0; break;
  case I_LDBC: s->breg = s->oreg; s->oreg = 0; break;
  case I_LDAP: s->areg = s->pc + s->oreg; s->oreg = 0; break;
  case I_LDAI: s->areg = ISA_RD(mem, s->areg + s->oreg, st); s->oreg = 0; break;
  case I_LDBI: s->breg = ISA_RD(mem, s->breg + s->oreg, st); s->oreg = 0; break;
  case I_STAI: { uint32_t a = s->breg + s->oreg; if (a < ISA_MEM_WORDS) { w->wr = true; w->waddr = a; w->wdata = s->areg; } else st->in_range = false; s->oreg = 0; break; }
  case I_BR: s->pc = s->pc + s->oreg; s->oreg = 0; break;
  case I_BRZ: if (s->areg == 0) s->pc = s->pc + s->oreg; s->oreg = 0; break;
  case I_BRN: if ((int32_t)s->areg < 0) s->pc = s->pc + s->oreg; s->oreg = 0; break;
  case I_PFIX: s->oreg = s->oreg << 4; break;
  case I_NFIX: s->oreg = 0xFFFFFF00u | (s->oreg << 4); break;
  case I_OPR:
    switch (s->oreg) {
    case O_BRB: s->pc = s->breg; break;
    case O_ADD: s->areg = s->areg + s->breg; break;
    case O_SUB: s->areg = s->areg - s->breg; break;
    case O_SVC: {
      uint32_t sp = ISA_RD(mem, 1u, st);
      switch (s->areg) {
      case 0: /* exit */
        s->running = false;
        s->exit_value = ISA_RD(mem, sp + 2u, st);
        ev->kind = EV_EXIT;
        break;
      case 1: { /* simout(mem[sp+2], mem[sp+3]) */
        uint32_t b = ISA_RD(mem, sp + 2u, st);
        uint32_t strm = ISA_RD(mem, sp + 3u, st);
        ev->kind = EV_WRITE; ev->stream = strm; ev->byte = (uint8_t)b;
        ev->to_file = !((int32_t)strm < 256);
        ev->file_index = (strm >> 8) & 7u;
        break;
      }
      case 2: { /* mem[sp+1] = simin(mem[sp+2]) & 0xFF */
        uint32_t strm = ISA_RD(mem, sp + 2u, st);
        ev->kind = EV_READ; ev->stream = strm;
        ev->to_file = !((int32_t)strm < 256);
        ev->file_index = (strm >> 8) & 7u;
        if (sp + 1u < ISA_MEM_WORDS) { w->wr = true; w->waddr = sp + 1u; w->wdata = ((uint32_t)in_byte) & 0xFFu; } else st->in_range = false;
        break;
      }
      default: st->defined = false; break; /* system calls above 2 */
      }
      break;
    }
    default: st->defined = false; break; /* OPR operands above 3 */
    }
    s->oreg = 0;
    break;
  default: st->defined = false; break; /* opcode 0xC */
  }
}

/* Operand delivered by a prefix chain: execute `n` bytes from a clear operand register.  Returns
 * true iff bytes 0..n-2 are PFIX/NFIX and byte n-1 is a non-prefix instruction; then *opc is that
 * instruction's opcode, *operand the value it sees, and the operand register is clear afterwards
 * (every non-prefix instruction clears it). */
static inline bool isa_decode_prefix(const uint8_t *bytes, size_t n, unsigned *opc, uint32_t *operand) {
  uint32_t oreg = 0;
  if (n == 0) return false;
  for (size_t i = 0; i < n; i++) {
    unsigned op = (bytes[i] >> 4) & 0xFu;
    oreg = oreg | (bytes[i] & 0xFu);
    if (op == I_PFIX) {
      if (i == n - 1) return false;
      oreg = oreg << 4;
    } else if (op == I_NFIX) {
      if (i == n - 1) return false;
      oreg = 0xFFFFFF00u | (oreg << 4);
    } else {
      if (i != n - 1) return false;
      *opc = op;
      *operand = oreg;
      return true;
    }
  }
  return false;
}

#endif

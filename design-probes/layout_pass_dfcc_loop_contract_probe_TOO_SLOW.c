#include <stdint.h>
#include <stddef.h>
#include <stdbool.h>
typedef enum { T_NUMBER,T_MINUS,T_DATA,T_PROC,T_FUNC,T_LDAM,T_LDBM,T_STAM,T_LDAC,T_LDBC,T_LDAP,T_LDAI,T_LDBI,T_STAI,T_BR,T_BRZ,T_BRN,T_BRB,T_SVC,T_ADD,T_SUB,T_OPR,T_IDENTIFIER,T_END_OF_FILE,T_PADDING } Token;
#define NO_LABEL (-1)
#define VMAX(a,b) ((a)>(b)?(a):(b))
static bool thrown;
#define VERIF_THROW(E) (thrown=1)
static int tokenToOprInstrOpc(Token t){ return 0; }
/* callee contracts (proved separately, see numNibbles probe) */
int numNibbles(int value)
__CPROVER_ensures(__CPROVER_return_value >= 1 && __CPROVER_return_value <= 8)
__CPROVER_assigns();
int instrLen(int labelOffset, int byteOffset, int minLength)
__CPROVER_requires(minLength >= 1 && minLength <= 8)
__CPROVER_ensures(__CPROVER_return_value >= minLength && __CPROVER_return_value <= 8)
__CPROVER_assigns();
#include "dir_fix.h"
#define MAXN 1000000
#define ISLABEL(d) ((d)->cls==CLS_Label||(d)->cls==CLS_Func||(d)->cls==CLS_Proc)
/* well-formedness of one directive object (what the constructors establish) */
static bool WF(Directive *d, size_t n){
  return d->cls>=CLS_Data && d->cls<=CLS_Padding
   && ((d->cls==CLS_Data) == (d->Directive_token==T_DATA))
   && (ISLABEL(d) == (d->Directive_token==T_IDENTIFIER||d->Directive_token==T_FUNC||d->Directive_token==T_PROC))
   && (d->cls!=CLS_InstrLabel || (d->InstrLabel_length>=1 && d->InstrLabel_length<=8 && (d->InstrLabel_label==NO_LABEL || (d->InstrLabel_label>=0 && (size_t)d->InstrLabel_label<n))))
   && (d->cls!=CLS_Padding || d->Padding_numBytes<=3)
   && (!ISLABEL(d) || (d->Label_labelValue>=0 && d->Label_labelValue<=11*MAXN))
   && (d->Directive_byteOffset>=0 && d->Directive_byteOffset<=11*MAXN);
}
int pass(Directive *program, size_t n, bool firstPass, bool *changedp, size_t gk, size_t gt)
__CPROVER_requires(n>0 && n<=MAXN && __CPROVER_is_fresh(program, n*sizeof(Directive)) && __CPROVER_is_fresh(changedp,sizeof(bool)))
__CPROVER_requires(gk<n && gt<n && WF(&program[gk],n) && WF(&program[gt],n))
__CPROVER_requires(program[gk].cls==CLS_InstrLabel ==> (program[gk].InstrLabel_label==(int)gt && ISLABEL(&program[gt])))
__CPROVER_assigns(__CPROVER_object_whole(program), *changedp, thrown)
/* labels sit at their offset */
__CPROVER_ensures(__CPROVER_return_value>=0 ==> (ISLABEL(&program[gk]) ==> program[gk].Label_labelValue==program[gk].Directive_byteOffset))
/* DATA aligned */
__CPROVER_ensures(__CPROVER_return_value>=0 ==> (program[gk].cls==CLS_Data ==> (program[gk].Directive_byteOffset&3)==0))
/* a pass that reports no change moved no label */
__CPROVER_ensures((__CPROVER_return_value>=0 && !*changedp && ISLABEL(&program[gk])) ==> program[gk].Label_labelValue==__CPROVER_old(program[gk].Label_labelValue))
/* relative reference gk resolves against the value of its target that was current when gk was laid out */
__CPROVER_ensures((__CPROVER_return_value>=0 && !firstPass && program[gk].cls==CLS_InstrLabel && program[gk].InstrLabel_relative) ==>
   program[gk].Directive_byteOffset + (int)program[gk].InstrLabel_length + program[gk].InstrLabel_labelValue
     == (gt<gk ? program[gt].Label_labelValue : __CPROVER_old(program[gt].Label_labelValue)))
{
  bool changed=false; int byteOffset=0;
  for (size_t _i=0; _i<n; _i++)
  __CPROVER_assigns(_i, byteOffset, changed, thrown, __CPROVER_object_whole(program))
  __CPROVER_loop_invariant(_i<=n && byteOffset>=0 && byteOffset<=11*(int)_i)
  __CPROVER_loop_invariant(program[gk].cls==__CPROVER_loop_entry(program[gk].cls) && program[gt].cls==__CPROVER_loop_entry(program[gt].cls))
  __CPROVER_loop_invariant(program[gk].InstrLabel_label==__CPROVER_loop_entry(program[gk].InstrLabel_label) && program[gk].InstrLabel_relative==__CPROVER_loop_entry(program[gk].InstrLabel_relative))
  __CPROVER_loop_invariant(gk<_i ==> (ISLABEL(&program[gk]) ==> program[gk].Label_labelValue==program[gk].Directive_byteOffset))
  __CPROVER_loop_invariant(gk<_i ==> (program[gk].cls==CLS_Data ==> (program[gk].Directive_byteOffset&3)==0))
  __CPROVER_loop_invariant((gk<_i && !changed && ISLABEL(&program[gk])) ==> program[gk].Label_labelValue==__CPROVER_loop_entry(program[gk].Label_labelValue))
  __CPROVER_loop_invariant(gk>=_i ==> program[gk].Label_labelValue==__CPROVER_loop_entry(program[gk].Label_labelValue))
  __CPROVER_loop_invariant(gt>=_i ==> program[gt].Label_labelValue==__CPROVER_loop_entry(program[gt].Label_labelValue))
  __CPROVER_loop_invariant((gk<_i && !firstPass && program[gk].cls==CLS_InstrLabel && program[gk].InstrLabel_relative) ==>
     program[gk].Directive_byteOffset + (int)program[gk].InstrLabel_length + program[gk].InstrLabel_labelValue
       == (gt<gk ? program[gt].Label_labelValue : __CPROVER_loop_entry(program[gt].Label_labelValue)))
  __CPROVER_decreases(n-_i)
#include "pass_body_fix3.c"
  *changedp=changed;
  return byteOffset;
}
void h_pass(void){ Directive *p; size_t n; bool fp; bool *c; size_t gk, gt; pass(p,n,fp,c,gk,gt); }

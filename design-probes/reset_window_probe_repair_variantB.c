#include "hexfull_fix.c"
#include <stdlib.h>
void __VERIF_fatal(void){ __CPROVER_assert(0,"VL_FATAL reached"); }
size_t nondet_sz(void); uint32_t nondet_u32(void);
Vhex__Syms S; static bool didInit;
static int n_syscalls;
static void eval_step(void){            /* shape of Vhex::eval_step (probe: hand-copied) */
  if(!didInit){ didInit=1; Vhex___024root___eval_static(&S.TOP); Vhex___024root___eval_initial(&S.TOP); Vhex___024root___eval_settle(&S.TOP); }
  Vhex___024root___eval(&S.TOP);
}
int main(void){
  Vhex__Syms T; S=T;  /* havoc all fields */
  S.TOP.vlSymsp=&S; S.TOP__hex.vlSymsp=&S; S.TOP__hex__u_memory.vlSymsp=&S; S.TOP__hex__u_processor.vlSymsp=&S;
  size_t n=nondet_sz(); __CPROVER_assume(n>=524288 && n<=1048576);
  S.TOP__hex__u_memory.memory_q=malloc(n*4); __CPROVER_assume(S.TOP__hex__u_memory.memory_q!=0);
  Vhex_processor *P=&S.TOP__hex__u_processor; Vhex_memory *M=&S.TOP__hex__u_memory;
  /* width cleanliness of power-on values */
  __CPROVER_assume(P->pc_q<(1u<<21) && S.TOP.i_clk<2 && S.TOP.i_rst<2 && S.TOP.__Vtrigrprev__TOP__i_clk<2 && S.TOP.__Vtrigrprev__TOP__i_rst<2);
  uint32_t k=nondet_u32(); __CPROVER_assume(k<524288); uint32_t memk=M->memory_q[k];
  /* hextb run(): probe copy of the loop, ticks 1..10 */
  unsigned time=0; S.TOP.i_rst=1; S.TOP.i_clk=0; eval_step();
  for(int it=0; it<10; it++){
    time++;
    S.TOP.i_clk=!S.TOP.i_clk;
    if(S.TOP.i_clk){ if(time<10) S.TOP.i_rst=1; else S.TOP.i_rst=0; }
    eval_step();
    if(S.TOP.i_clk && S.TOP.o_syscall_valid){ n_syscalls++; __CPROVER_assert(P->pc_q==0 && P->__PVT__areg_q==0 && P->__PVT__breg_q==0 && P->__PVT__oreg_q==0 && M->memory_q[k]==memk,"a system call is sampled only in the start state with memory intact"); }
  }
  
  __CPROVER_assert(M->memory_q[k]==memk,"memory intact through reset window");
  __CPROVER_assert(P->pc_q==0 && P->__PVT__areg_q==0 && P->__PVT__breg_q==0 && P->__PVT__oreg_q==0,"start state");
  return 0;
}

#include <stdint.h>
#include <stddef.h>
#include <stdbool.h>
#include <stdlib.h>
typedef enum { T_NUMBER,T_MINUS,T_DATA,T_PROC,T_FUNC,T_LDAM,T_LDBM,T_STAM,T_LDAC,T_LDBC,T_LDAP,T_LDAI,T_LDBI,T_STAI,T_BR,T_BRZ,T_BRN,T_BRB,T_SVC,T_ADD,T_SUB,T_OPR,T_IDENTIFIER,T_END_OF_FILE,T_PADDING } Token;
#define NO_LABEL (-1)
#define VMAX(a,b) ((a)>(b)?(a):(b))
static bool thrown;
#define VERIF_THROW(E) (thrown=1)
static int tokenToOprInstrOpc(Token t){ return 0; }
int nondet_int(void);
/* callee contracts applied by hand (probe): havoc + assume ensures */
static int numNibbles(int value){ int r=nondet_int(); __CPROVER_assume(r>=1&&r<=8); return r; }
static int instrLen(int l,int o,int minLength){ __CPROVER_assert(minLength>=1&&minLength<=8,"instrLen requires"); int r=nondet_int(); __CPROVER_assume(r>=minLength&&r<=8); return r; }
#include "dir_fix.h"
#define MAXN 1000000
#define ISLABEL(d) ((d)->cls==CLS_Label||(d)->cls==CLS_Func||(d)->cls==CLS_Proc)
static bool WF(Directive *d, size_t n){
  return d->cls>=CLS_Data && d->cls<=CLS_Padding
   && ((d->cls==CLS_Data) == (d->Directive_token==T_DATA))
   && (ISLABEL(d) == (d->Directive_token==T_IDENTIFIER||d->Directive_token==T_FUNC||d->Directive_token==T_PROC))
   && (d->cls!=CLS_InstrLabel || (d->InstrLabel_length>=1 && d->InstrLabel_length<=8 && (d->InstrLabel_label==NO_LABEL || (d->InstrLabel_label>=0 && (size_t)d->InstrLabel_label<n))))
   && (d->cls!=CLS_Padding || d->Padding_numBytes<=3)
   && (!ISLABEL(d) || (d->Label_labelValue>=0 && d->Label_labelValue<=11*MAXN))
   && (d->Directive_byteOffset>=0 && d->Directive_byteOffset<=11*MAXN);
}
/* loop state and ghosts */
static Directive *program; static size_t n,_i,gk,gt; static int byteOffset; static bool changed, firstPass;
static int old_label_gk, old_label_gt;   /* loop-entry values (ghost) */
static bool INV(void){
  Directive *K=&program[gk], *T=&program[gt];
  return _i<=n && byteOffset>=0 && byteOffset<=11*(int)_i
   && WF(K,n) && WF(T,n)
   && (K->cls!=CLS_InstrLabel || (K->InstrLabel_label==(int)gt && ISLABEL(T)))
   && (!(gk<_i) || !ISLABEL(K) || K->Label_labelValue==K->Directive_byteOffset)
   && (!(gk<_i) || K->cls!=CLS_Data || (K->Directive_byteOffset&3)==0)
   && (!(gk<_i && !changed && ISLABEL(K)) || K->Label_labelValue==old_label_gk)
   && (!(gk>=_i && ISLABEL(K)) || K->Label_labelValue==old_label_gk)
   && (!(gt>=_i) || T->Label_labelValue==old_label_gt)
   && (!(gk<_i && !firstPass && K->cls==CLS_InstrLabel && K->InstrLabel_relative) ||
        K->Directive_byteOffset + (int)K->InstrLabel_length + K->InstrLabel_labelValue == (gt<gk ? T->Label_labelValue : old_label_gt));
}
static int body(void){
#include "pass_body_fix3.c"
  return 0;
}
size_t nondet_sz(void);
void h_step(void){
  n=nondet_sz(); __CPROVER_assume(n>0 && n<=MAXN);
  _i=nondet_sz(); gk=nondet_sz(); gt=nondet_sz(); byteOffset=nondet_int(); changed=nondet_int()&1; firstPass=nondet_int()&1; old_label_gk=nondet_int(); old_label_gt=nondet_int();
  program=malloc(n*sizeof(Directive)); __CPROVER_assume(program!=0);
  __CPROVER_assume(gk<n && gt<n && _i<n);
  __CPROVER_assume(INV());
  /* snapshot of the ghost elements' immutable fields, and of element gk when it is not the visited one */
  Directive K0=program[gk], T0=program[gt];
  size_t i0=_i;
  int r=body();
  if(r<0) return;           /* a throw leaves the loop: nothing to re-establish */
  _i=i0+1;
  __CPROVER_assert(gk==i0 || (program[gk].cls==K0.cls && program[gk].Label_labelValue==K0.Label_labelValue && program[gk].Directive_byteOffset==K0.Directive_byteOffset && program[gk].InstrLabel_labelValue==K0.InstrLabel_labelValue && program[gk].InstrLabel_length==K0.InstrLabel_length), "frame: only the visited directive changes (gk)");
  __CPROVER_assert(gt==i0 || (program[gt].cls==T0.cls && program[gt].Label_labelValue==T0.Label_labelValue), "frame: only the visited directive changes (gt)");
  __CPROVER_assert(program[gk].cls==K0.cls && program[gk].InstrLabel_label==K0.InstrLabel_label && program[gk].InstrLabel_relative==K0.InstrLabel_relative && program[gk].Directive_token==K0.Directive_token, "class, target and kind never change");
  __CPROVER_assert(INV(),"invariant re-established after one iteration");
}

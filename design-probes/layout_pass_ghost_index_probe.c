#include <stdint.h>
#include <stddef.h>
#include <stdbool.h>
enum { K_DATA, K_LABEL, K_IMM, K_REF };
typedef struct { int kind; int byteOffset; int labelValue; int value; int size; size_t target; } Dir;
#define MAXN 100000
/* toy shape of one layout pass; checks tool mechanics only */
int pass(Dir *program, size_t n, size_t gk, bool *changed)
__CPROVER_requires(n > 0 && n <= MAXN && __CPROVER_is_fresh(program, n * sizeof(Dir)) && __CPROVER_is_fresh(changed, sizeof(bool)))
__CPROVER_requires(gk < n)
__CPROVER_requires(program[gk].kind >= K_DATA && program[gk].kind <= K_REF)
__CPROVER_requires(program[gk].size >= 0 && program[gk].size <= 8)
__CPROVER_assigns(__CPROVER_object_whole(program), *changed)
__CPROVER_ensures(__CPROVER_return_value >= 0)
__CPROVER_ensures(program[gk].kind == K_LABEL ==> program[gk].labelValue == program[gk].byteOffset)
__CPROVER_ensures((program[gk].kind == K_LABEL && !*changed) ==> program[gk].labelValue == __CPROVER_old(program[gk].labelValue))
__CPROVER_ensures(program[gk].kind == K_DATA ==> (program[gk].byteOffset & 3) == 0)
{
  int byteOffset = 0;
  *changed = false;
  for (size_t i = 0; i < n; i++)
  __CPROVER_assigns(i, byteOffset, *changed, __CPROVER_object_whole(program))
  __CPROVER_loop_invariant(i <= n && byteOffset >= 0 && byteOffset <= 8 * (int)i)
  __CPROVER_loop_invariant(gk < i ==> (program[gk].kind == K_LABEL ==> program[gk].labelValue == program[gk].byteOffset))
  __CPROVER_loop_invariant(gk < i ==> (program[gk].kind == K_DATA ==> (program[gk].byteOffset & 3) == 0))
  __CPROVER_loop_invariant((gk < i && program[gk].kind == K_LABEL && !*changed) ==> program[gk].labelValue == __CPROVER_loop_entry(program[gk].labelValue))
  __CPROVER_loop_invariant(gk >= i ==> program[gk].labelValue == __CPROVER_loop_entry(program[gk].labelValue))
  __CPROVER_loop_invariant(program[gk].kind == __CPROVER_loop_entry(program[gk].kind))
  __CPROVER_decreases(n - i)
  {
    Dir *d = &program[i];
    if (d->kind == K_DATA) { if (byteOffset & 3) byteOffset += 4 - (byteOffset & 3); }
    if (d->kind == K_LABEL) { if (d->labelValue != byteOffset) *changed = true; d->labelValue = byteOffset; }
    d->byteOffset = byteOffset;
    int sz = d->kind == K_DATA ? 4 : d->kind == K_LABEL ? 0 : (d->size >= 1 && d->size <= 8 ? d->size : 1);
    byteOffset += sz;
  }
  return byteOffset;
}
size_t nondet_sz(void);
void h_pass(void){ Dir *p; size_t n; size_t gk; bool *c; pass(p,n,gk,c); }

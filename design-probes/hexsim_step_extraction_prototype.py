import re,sys
src=open('/repo/hexsim.hpp').read()
def body_of(sig_regex):
    m=re.search(sig_regex,src); assert m, sig_regex
    i=src.index('{',m.end()-1); d=0; j=i
    while True:
        if src[j]=='{': d+=1
        elif src[j]=='}':
            d-=1
            if d==0: break
        j+=1
    return src[i:j+1]
rules=[  # (regex, replacement, min_fires)
 (r'hex::Instr::',r'',14),(r'hex::OprInstr::',r'',4),(r'hex::Syscall::',r'SC_',3),
 (r'static_cast<hex::Instr>\(',r'(Instr)(',1),(r'static_cast<hex::OprInstr>\(',r'(OprInstr)(',1),(r'static_cast<hex::Syscall>\(',r'(Syscall)(',1),
 (r'throw std::runtime_error\([^;]*\);',r'{ VERIF_THROW(); return VERIF_RET; }',3),
 (r'io\.output\(',r'io_output(',1),(r'io\.input\(',r'io_input(',1),
 (r'\bauto value\b',r'char value',1),
 (r'memory\[',r'memory[BND ',9),
]
def apply(t,fired):
    for rx,rep,mn in rules:
        t,n=re.subn(rx,rep,t); fired[rx]=fired.get(rx,0)+n
    return t
fired={}
run=body_of(r'int run\(\) \{')
# loop body = body of the single while in run()
m=re.search(r'while \(running &&\s*\(maxCycles > 0 \? cycles <= maxCycles : true\)\) ',run); assert m
s=run[m.end():]; d=0
for j,c in enumerate(s):
    if c=='{': d+=1
    elif c=='}':
        d-=1
        if d==0: break
step=apply(s[:j+1],fired)
sysc=apply(body_of(r'void syscall\(\) \{'),fired)
for rx,rep,mn in rules: assert fired[rx]>=mn,(rx,fired[rx])
print('/* extracted from hexsim.hpp: syscall() */\n#define VERIF_RET\nvoid syscall(void)'+sysc)
print('/* extracted from hexsim.hpp: body of the while loop in run() */\n#undef VERIF_RET\n#define VERIF_RET\nvoid step(void)'+step)

#!/usr/bin/env python3
"""Prototype: convert Verilator 5.006 --cc output dir into one C translation unit."""
import re,sys,glob,os
d=sys.argv[1]; prefix=sys.argv[2]
out=[]
out.append('''
#include <stdbool.h>
#include <stdint.h>
typedef uint8_t CData; typedef uint16_t SData; typedef uint32_t IData; typedef uint64_t QData;
typedef struct { bool m_flags[1]; } VlTriggerVec1;
#define VL_IN8(n,m,l) CData n
#define VL_OUT8(n,m,l) CData n
#define VL_IN(n,m,l) IData n
#define VL_OUT(n,m,l) IData n
#define VL_INLINE_OPT
#define VL_ATTR_UNUSED
#define VL_ATTR_COLD
#define VL_DEBUG_IF(x)
#define VL_UNLIKELY(x) (x)
void __VERIF_fatal(void);
#define VL_FATAL_MT(a,b,c,d) __VERIF_fatal()
static inline int64_t VL_EXTENDS_QQ(int obits,int lbits,QData lhs){ return (int64_t)(lhs | ((-((lhs >> (lbits-1)) & 1ULL)) << (lbits-1)) ); }
static inline IData VL_GTS_III(int lbits, IData lhs, IData rhs){ return VL_EXTENDS_QQ(64,lbits,lhs) > VL_EXTENDS_QQ(64,lbits,rhs); }
static inline IData VL_LTS_III(int lbits, IData lhs, IData rhs){ return VL_EXTENDS_QQ(64,lbits,lhs) < VL_EXTENDS_QQ(64,lbits,rhs); }
''')
def conv_header(path):
    s=open(path).read()
    m=re.search(r'class (\w+) final : public Verilated(?:Module|Syms) \{(.*?)\n\} VL_ATTR_ALIGNED',s,re.S)
    name=m.group(1); body=m.group(2)
    lines=[]
    for l in body.split('\n'):
        t=l.strip()
        if not t or t.startswith('//') or t=='public:': continue
        if re.match(r'~?%s\('%re.escape(name),t) or t.startswith('VL_UNCOPYABLE') or t.startswith('void __Vconfigure') or t.startswith('const char* name()'): continue
        if 'VerilatedScope' in t: continue
        if '__Vm_modelp' in t: continue
        t=re.sub(r'VlUnpacked<(\w+)/\*[^*]*\*/, (\d+)> (\w+);',r'\1 \3[\2];',t)
        t=re.sub(r'VlTriggerVec<1>','VlTriggerVec1',t)
        t=re.sub(r' = false;',';',t)
        lines.append('  '+t)
    return name,lines
hdrs=[h for h in glob.glob(d+'/'+prefix+'_*.h')+glob.glob(d+'/'+prefix+'__Syms.h') if '__Dpi' not in h]
structs={}
for h in hdrs:
    n,l=conv_header(h); structs[n]=l
for n in structs: out.append('typedef struct %s %s;'%(n,n))
out.append('typedef struct %s %s;'%(prefix,prefix))
# order: modules first, Syms last
for n in sorted(structs,key=lambda x: x.endswith('__Syms')):
    out.append('struct %s {\n%s\n};'%(n,'\n'.join(structs[n])))
for c in sorted(glob.glob(d+'/'+prefix+'_*__DepSet_*__0.cpp')):
    if '__Slow' in c: continue   # prototype: skip slow (init/settle) files
    s=open(c).read()
    s=re.sub(r'#include "[^"]*"\n','',s)
    s=re.sub(r'#ifdef VL_DEBUG\n.*?#endif[^\n]*\n','',s,flags=re.S)
    s=re.sub(r'(\w+)\.at\((\w+)\)',r'\1.m_flags[\2]',s)
    s=re.sub(r'([\w>\-]+)\.any\(\)',r'(\1.m_flags[0])',s)
    s=re.sub(r'([\w>\-]+)\.clear\(\);',r'\1.m_flags[0]=0;',s)
    s=re.sub(r'([\w>\-]+)\.set\(([\w>\-]+)\);',r'\1.m_flags[0] |= \2.m_flags[0];',s)
    s=re.sub(r'([\w>\-]+)\.andNot\(([\w>\-]+), ([\w>\-]+)\);',r'\1.m_flags[0] = \2.m_flags[0] && !\3.m_flags[0];',s)
    s=re.sub(r'VlTriggerVec<1>','VlTriggerVec1',s)
    out.append('/* ---- %s ---- */'%os.path.basename(c)); out.append(s)
print('\n'.join(out))

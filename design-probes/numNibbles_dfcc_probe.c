#include <stdlib.h>
#include <stdint.h>
#include <limits.h>
/* extracted text of hexasm::numNibbles, std::abs -> abs, contracts spliced */
static int numNibbles(int value)
__CPROVER_requires(1)
__CPROVER_ensures(__CPROVER_return_value >= 1 && __CPROVER_return_value <= 8)
__CPROVER_ensures(value >= 0 ==> ((__CPROVER_return_value == 8) || ((uint32_t)value >> (4*__CPROVER_return_value)) == 0))
__CPROVER_ensures(value < 0 ==> __CPROVER_return_value >= 2)
__CPROVER_ensures(value < 0 ==> ((__CPROVER_return_value == 8) || (((uint32_t)value >> (4*__CPROVER_return_value)) == (0xFFFFFFFFu >> (4*__CPROVER_return_value)))))
__CPROVER_assigns()
{
  if (value == 0) {
    return 1;
  }
  if (value < 0 && abs(value) < 16) {
    // Account for NFIX required to add leading 1s.
    return 2;
  }
  if (value < 0) {
    value = abs(value);
  }
  int n = 1;
  while (value >= 16)
  __CPROVER_assigns(value, n)
  __CPROVER_loop_invariant(n >= 1 && n <= 8 && value > 0 && value == (__CPROVER_loop_entry(value) >> (4*(n-1))) && (n == 8 ==> value < 16))
  __CPROVER_decreases(value)
  {
    value >>= 4;
    n++;
  }
  return n;
}
int nondet_int(void);
void h_numNibbles(void){ int v=nondet_int(); numNibbles(v); }

#include <stdint.h>
#include <stdlib.h>
uint32_t nondet_u32(void);
size_t nondet_sz(void);
int main(void){
  size_t n=nondet_sz(); __CPROVER_assume(n>=524288 && n<=1048576);
  uint32_t *mem=malloc(n*sizeof(uint32_t));
  __CPROVER_assume(mem!=0);
  uint32_t i=nondet_u32(), j=nondet_u32(), k=nondet_u32();
  __CPROVER_assume(i<524288 && j<524288 && k<524288);
  uint32_t oldk=mem[k];
  uint32_t v=mem[i]+1;
  mem[j]=v;
  __CPROVER_assert(mem[k]==(k==j?v:oldk),"frame");
  __CPROVER_assert(mem[k]==oldk,"must fail");
  return 0;
}

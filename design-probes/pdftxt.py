import re,sys,zlib
data=open(sys.argv[1],'rb').read()
out=[]
for m in re.finditer(rb'stream\r?\n(.*?)\r?\nendstream',data,re.S):
    s=m.group(1)
    try: s=zlib.decompress(s)
    except Exception: continue
    if b'BT' not in s: continue
    txt=[]
    for t in re.finditer(rb'\[(.*?)\]\s*TJ|\((.*?)\)\s*Tj|(T\*|Td|TD|ET)',s,re.S):
        if t.group(1) is not None:
            parts=re.findall(rb'\(((?:\\.|[^\\)])*)\)|(-?\d+\.?\d*)',t.group(1))
            for p,n in parts:
                if p: txt.append(p.decode('latin1'))
                elif n and float(n)<-200: txt.append(' ')
        elif t.group(2) is not None: txt.append(t.group(2).decode('latin1'))
        else: txt.append('\n')
    out.append(''.join(txt))
print('\n=====\n'.join(out))

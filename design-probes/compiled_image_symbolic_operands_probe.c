#include <stdint.h>
#include <stdbool.h>
#include <stddef.h>
#include <stdlib.h>
typedef enum { LDAM=0,LDBM,STAM,LDAC,LDBC,LDAP,LDAI,LDBI,STAI,BR,BRZ,BRN,OPR=0xD,PFIX,NFIX } Instr;
typedef enum { BRB=0,ADD,SUB,SVC } OprInstr;
typedef enum { SC_EXIT=0,SC_WRITE,SC_READ } Syscall;
uint32_t pc, areg, breg, oreg, instr; bool truncateInputs=1, running=1, tracing=0; int exitCode; uint32_t lastPC; size_t cycles, maxCycles; Instr instrEnum;
#include "img.h"
/* banked representation of the flat 200000-word memory: low bank = image words (field sensitive), high bank = the rest */
static uint32_t lowbank[IMG_WORDS]; static uint32_t *highbank;
static inline uint32_t RD(uint32_t a){ __CPROVER_assert(a<200000u,"memory index in range"); return a<IMG_WORDS ? lowbank[a] : highbank[a-IMG_WORDS]; }
static inline void WR(uint32_t a,uint32_t v){ __CPROVER_assert(a<200000u,"memory index in range"); if(a<IMG_WORDS) lowbank[a]=v; else highbank[a-IMG_WORDS]=v; }
static bool thrown;
#define VERIF_THROW() (thrown=1)
static void trace(uint32_t i, Instr e){}
static void io_output(char v,int s){ }
static char io_input(int s){ return 0; }
#include "hexsim_ex2.c"
size_t nondet_sz(void); uint32_t nondet_u32(void);
int main(void){
  size_t n=nondet_sz(); __CPROVER_assume(n>=200000 && n<=400000);
  highbank=malloc(n*4); __CPROVER_assume(highbank!=0);
  for(int i=0;i<IMG_WORDS;i++) lowbank[i]=IMG[i];
  uint32_t x=nondet_u32(), y=nondet_u32();
  lowbank[2]=x; lowbank[3]=y;
  for(int s=0; s<64 && running; s++) step();
  __CPROVER_assert(!running,"program exited within bound");
  __CPROVER_assert(!thrown,"no undefined instruction");
  int folded = ((int)x < (int)y);
  __CPROVER_assert(exitCode==folded,"run-time LS equals folded LS");
  long long d=(long long)(int)x-(long long)(int)y;
  __CPROVER_assert((d<-2147483648LL||d>2147483647LL) || exitCode==folded,"run-time LS equals folded LS when difference does not overflow");
  return 0;
}

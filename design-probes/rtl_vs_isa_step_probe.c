#include "hex_rtl2.c"
void __VERIF_fatal(void){ __CPROVER_assert(0,"VL_FATAL reached"); }
#define MEMW 200000u
#include <stdlib.h>
size_t nondet_sz(void);
uint32_t nondet_u32(void);
uint8_t nondet_u8(void);
int main(void){
  Vhex__Syms S; size_t n=nondet_sz(); __CPROVER_assume(n>=524288 && n<=1048576); S.TOP__hex__u_memory.memory_q=malloc(n*4); __CPROVER_assume(S.TOP__hex__u_memory.memory_q!=0);
  S.TOP.vlSymsp=&S; S.TOP__hex.vlSymsp=&S; S.TOP__hex__u_memory.vlSymsp=&S; S.TOP__hex__u_processor.vlSymsp=&S;
  Vhex_processor *P=&S.TOP__hex__u_processor; Vhex_memory *M=&S.TOP__hex__u_memory;
  uint32_t pc=P->pc_q, a=P->__PVT__areg_q, b=P->__PVT__breg_q, o=P->__PVT__oreg_q;
  __CPROVER_assume(pc < 4*MEMW);
  S.TOP.i_clk=0; S.TOP.i_rst=0; S.TOP.__Vtrigrprev__TOP__i_clk=0; S.TOP.__Vtrigrprev__TOP__i_rst=0;
  Vhex___024root___eval(&S.TOP);
  // ISA step (probe only; real one is extracted from hexsim.hpp)
  uint32_t instr=(M->memory_q[pc>>2] >> ((pc&3)<<3)) & 0xFF;
  uint32_t npc=pc+1, na=a, nb=b, no=o|(instr&0xF); uint32_t wr=0, waddr=0, wdata=0; int defined=1;
  uint32_t opr=no;
  switch((instr>>4)&0xF){
   case 0: __CPROVER_assume(opr<MEMW); na=M->memory_q[opr]; no=0; break;
   case 1: __CPROVER_assume(opr<MEMW); nb=M->memory_q[opr]; no=0; break;
   case 2: __CPROVER_assume(opr<MEMW); wr=1; waddr=opr; wdata=a; no=0; break;
   case 3: na=opr; no=0; break;
   case 4: nb=opr; no=0; break;
   case 5: na=npc+opr; __CPROVER_assume(na < 4*MEMW); no=0; break;
   case 6: __CPROVER_assume(a+opr<MEMW); na=M->memory_q[a+opr]; no=0; break;
   case 7: __CPROVER_assume(b+opr<MEMW); nb=M->memory_q[b+opr]; no=0; break;
   case 8: __CPROVER_assume(b+opr<MEMW); wr=1; waddr=b+opr; wdata=a; no=0; break;
   case 9: npc=npc+opr; no=0; break;
   case 10: if(a==0) npc=npc+opr; no=0; break;
   case 11: if((int)a<0) npc=npc+opr; no=0; break;
   case 14: no=opr<<4; break;
   case 15: no=0xFFFFFF00u|(opr<<4); break;
   case 13: switch(opr){case 0: npc=b; break; case 1: na=a+b; break; case 2: na=a-b; break; case 3: break; default: defined=0;} no=0; break;
   default: defined=0;
  }
  __CPROVER_assume(defined);
  __CPROVER_assume(npc < 4*MEMW);
  uint32_t k=nondet_u32(); __CPROVER_assume(k<MEMW);
  uint32_t oldk=M->memory_q[k];
  S.TOP.i_clk=1;
  Vhex___024root___eval(&S.TOP);
  __CPROVER_assert(P->pc_q==npc,"pc");
  __CPROVER_assert(P->__PVT__areg_q==na,"areg");
  __CPROVER_assert(P->__PVT__breg_q==nb,"breg");
  __CPROVER_assert(P->__PVT__oreg_q==no,"oreg");
  __CPROVER_assert(M->memory_q[k]==((wr&&waddr==k)?wdata:oldk),"mem");
  return 0;
}

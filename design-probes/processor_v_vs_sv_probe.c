#include "psv.c"
#include "pv_body.c"
void __VERIF_fatal(void){ __CPROVER_assert(0,"VL_FATAL reached"); }
uint32_t nondet_u32(void); uint8_t nondet_u8(void);
int main(void){
  Vpsv__Syms A; Vpv__Syms B;
  A.TOP.vlSymsp=&A; A.TOP__processor.vlSymsp=&A; B.TOP.vlSymsp=&B;
  Vpsv_processor *P=&A.TOP__processor;
  /* identical architectural state */
  B.TOP.processor__DOT__pc_q = P->pc_q & 0x1fffff; P->pc_q &= 0x1fffff;
  B.TOP.processor__DOT__areg_q = P->__PVT__areg_q;
  B.TOP.processor__DOT__breg_q = P->__PVT__breg_q;
  B.TOP.processor__DOT__oreg_q = P->__PVT__oreg_q;
  /* identical inputs, settled at clk low */
  uint8_t f=nondet_u8(); uint32_t d=nondet_u32(); uint8_t rst0=nondet_u8()&1, rst1=nondet_u8()&1;
  A.TOP.i_clk=0; B.TOP.i_clk=0; A.TOP.i_rst=rst0; B.TOP.i_rst=rst0; A.TOP.i_f_data=f; B.TOP.i_f_data=f; A.TOP.i_d_data=d; B.TOP.i_d_data=d;
  A.TOP.__Vtrigrprev__TOP__i_clk=0; B.TOP.__Vtrigrprev__TOP__i_clk=0; A.TOP.__Vtrigrprev__TOP__i_rst=rst0; B.TOP.__Vtrigrprev__TOP__i_rst=rst0;
  Vpsv___024root___eval(&A.TOP); Vpv___024root___eval(&B.TOP);
#define CMP(x) __CPROVER_assert(A.TOP.x==B.TOP.x, "out " #x)
  CMP(o_f_addr); CMP(o_d_valid); CMP(o_d_we); CMP(o_d_addr); CMP(o_d_data); CMP(o_syscall_valid); CMP(o_syscall);
  uint8_t clk1=nondet_u8()&1;
  A.TOP.i_clk=clk1; B.TOP.i_clk=clk1; A.TOP.i_rst=rst1; B.TOP.i_rst=rst1;
  Vpsv___024root___eval(&A.TOP); Vpv___024root___eval(&B.TOP);
  __CPROVER_assert(P->pc_q==B.TOP.processor__DOT__pc_q,"pc");
  __CPROVER_assert(P->__PVT__areg_q==B.TOP.processor__DOT__areg_q,"areg");
  __CPROVER_assert(P->__PVT__breg_q==B.TOP.processor__DOT__breg_q,"breg");
  __CPROVER_assert(P->__PVT__oreg_q==B.TOP.processor__DOT__oreg_q,"oreg");
  CMP(o_f_addr); CMP(o_d_valid); CMP(o_d_we); CMP(o_d_addr); CMP(o_d_data); CMP(o_syscall_valid); CMP(o_syscall);
  return 0;
}

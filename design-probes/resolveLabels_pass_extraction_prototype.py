#!/usr/bin/env python3
"""Prototype: extract the inner for-loop of CodeGen::resolveLabels as one C 'pass' function (design probe)."""
import re,sys
src=open(sys.argv[1]).read()
m=re.search(r'void resolveLabels\(\) \{',src); assert m
i=src.index('for (auto &directive : program) {',m.end())
j=i+len('for (auto &directive : program) '); d=0; k=j
while True:
    if src[k]=='{': d+=1
    elif src[k]=='}':
        d-=1
        if d==0: break
    k+=1
body=src[j:k+1]
rules=[
 (r'directive->getToken\(\)','Directive_getToken(directive)',4),
 (r'Token::',r'T_',4),
 (r'dynamic_cast<Label\*>\(directive\.get\(\)\)->setLabelValue\(',r'Label_setLabelValue(directive, ',1),
 (r'directive->operandIsLabel\(\)','V_operandIsLabel(directive)',1),
 (r'auto instrLabel = dynamic_cast<InstrLabel\*>\(directive\.get\(\)\);','Directive *instrLabel = directive;',1),
 (r'labelMap\.count\(instrLabel->getLabel\(\)\) == 0','InstrLabel_getLabel(instrLabel) == NO_LABEL',1),
 (r'throw (\w+)\([^;]*\);',r'{ VERIF_THROW(\1); return -1; }',1),
 (r'labelMap\[instrLabel->getLabel\(\)\]->getValue\(\)','V_getValue(&program[InstrLabel_getLabel(instrLabel)])',1),
 (r'instrLabel->isRelative\(\)','InstrLabel_isRelative(instrLabel)',1),
 (r'instrLabel->getSize\(\)','V_getSize(instrLabel)',0),
 (r'instrLabel->setLength\(','InstrLabel_setLength(instrLabel, ',0),
 (r'instrLabel->setLabelValue\(','InstrLabel_setLabelValue(instrLabel, ',1),
 (r'directive->setByteOffset\(','Directive_setByteOffset(directive, ',1),
 (r'directive->getSize\(\)','V_getSize(directive)',1),
 (r'directive->getLocation\(\)','0',0),
]
for rx,rep,mn in rules:
    body,n=re.subn(rx,rep,body)
    assert n>=mn,(rx,n)
print(body)

#undef main
// c06_native.cpp -- native stage for C06: the REAL hexsim::Processor against hextb.cpp's OWN load()/run() (linked in,
// main renamed) on the natively Verilated model, on the same binary and the same input.
//   sweep <seed> <n> <repo tests dir>
// Programs: the shipped tests/x/*.x compiled by the real xcmp and tests/asm/*.S assembled by the real hexasm (in
// process), plus n generated assembly programs (arithmetic, branches, stores/loads of written words, write/read/exit
// system calls on several streams).  Compared: stdout after hextb's banner line, bytes consumed from stdin, exit value.
#include <cstdio>
#include <cstdint>
#include <cstring>
#include <fstream>
#include <iostream>
#include <memory>
#include <random>
#include <sstream>
#include <string>
#include <vector>
#include <dirent.h>
#include <unistd.h>
#include <new>
#include <verilated.h>
#include "Vhex_pkg.h"
#include "hexasm.hpp"
#include "xcmp.hpp"
#include "hexsim.hpp"
extern "C" {
#include "isa.h"
}
struct HexVerifAccess {};
// the property quantifies over programs that never read memory they have not written: classify with an ISA reference run
static bool readsUnwritten(const char *bin, const std::string &input) {
  std::ifstream f(bin, std::ios::binary); uint32_t words = 0; f.read(reinterpret_cast<char *>(&words), 4);
  std::vector<uint32_t> mem(ISA_MEM_WORDS, 0); std::vector<bool> wr(ISA_MEM_WORDS, false);
  if (words > ISA_MEM_WORDS) return true;
  f.read(reinterpret_cast<char *>(mem.data()), words * 4); for (uint32_t i = 0; i < words; i++) wr[i] = true;
  isa_state s{0, 0, 0, 0, true, 0}; size_t ip = 0;
  for (long n = 0; n < 3000000 && s.running; n++) {
    uint32_t byte = (mem[(s.pc >> 2) % ISA_MEM_WORDS] >> ((s.pc & 3) << 3)) & 0xFF, opc = byte >> 4, opr = s.oreg | (byte & 0xF);
    std::vector<uint32_t> reads; reads.push_back(s.pc >> 2);
    if (opc == I_LDAM || opc == I_LDBM) reads.push_back(opr); if (opc == I_LDAI) reads.push_back(s.areg + opr); if (opc == I_LDBI) reads.push_back(s.breg + opr);
    if (opc == I_OPR && opr == O_SVC) { reads.push_back(1); uint32_t sp = mem[1]; reads.push_back(sp + 2); if (s.areg == 1) reads.push_back(sp + 3); }
    for (uint32_t a : reads) if (a >= ISA_MEM_WORDS || !wr[a]) return true;
    int in = ip < input.size() ? (unsigned char)input[ip] : -1;
    isa_write w; isa_event ev; isa_status st; isa_step(&s, mem.data(), in, &w, &ev, &st);
    if (!st.defined || !st.in_range) return true;
    if (ev.kind == EV_READ && ip < input.size()) ip++;
    if (w.wr) { mem[w.waddr] = w.wdata; wr[w.waddr] = true; }
  }
  return s.running;   // did not terminate within the budget: not usable either
}
void load(const char *filename, const std::unique_ptr<Vhex_pkg> &top);
int run(const std::unique_ptr<VerilatedContext> &contextp, const std::unique_ptr<Vhex_pkg> &top, bool trace, size_t maxCycles);

struct Out { int exitCode; std::string out; size_t consumed; bool threw; bool timeout; std::string files; };
// each tool runs in its own directory so that the simout<n>/simin<n> files of the two do not collide
static void enterDir(const char *d) { std::string c = std::string("rm -rf ") + d + " && mkdir -p " + d; system(c.c_str()); chdir(d); }
static std::string collectFiles() { std::string r; for (int i = 0; i < 8; i++) { std::string fn = "simout" + std::to_string(i); std::ifstream f(fn, std::ios::binary); if (f) { std::stringstream ss; ss << f.rdbuf(); r += fn + "=[" + ss.str() + "]"; } } return r; }

static Out runSim(const char *bin0, const std::string &input) {
  std::string binp = std::string("../") + bin0; const char *bin = binp.c_str();
  enterDir("sim");
  std::istringstream in(input); std::ostringstream os; Out o{0, "", 0, false, false, ""};
  try {
    std::unique_ptr<hexsim::Processor> p(new hexsim::Processor(in, os, 3000000));
    p->load(bin); o.exitCode = p->run();
  } catch (std::exception &) { o.threw = true; }
  o.files = collectFiles(); chdir("..");
  o.out = os.str(); in.clear(); std::streampos pos = in.tellg(); o.consumed = pos < 0 ? input.size() : (size_t)pos;
  return o;
}
// hextb's HexSimIO `io` is a global that lives across runs: files it opened stay open; give every run a fresh object
extern hex::HexSimIO io;
static Out runTb(const char *bin0, const std::string &input, int seed) {
  std::string binp = std::string("../") + bin0; const char *bin = binp.c_str();
  enterDir("tb");
  io.~HexSimIO(); new (&io) hex::HexSimIO(std::cin, std::cout);
  Out o{0, "", 0, false, false, ""};
  std::istringstream in(input); std::ostringstream os;
  auto *oldin = std::cin.rdbuf(in.rdbuf()); auto *oldout = std::cout.rdbuf(os.rdbuf());
  std::cin.clear();
  try {
    const std::unique_ptr<VerilatedContext> ctx{new VerilatedContext};
    const char *av[] = {"c06"}; ctx->commandArgs(1, av); ctx->randReset(2); ctx->randSeed(seed);
    const std::unique_ptr<Vhex_pkg> top{new Vhex_pkg{ctx.get(), "TOP"}};
    load(bin, top);
    o.exitCode = run(ctx, top, false, 3000000);
  } catch (std::exception &) { o.threw = true; }
  std::cin.rdbuf(oldin); std::cout.rdbuf(oldout);
  io.~HexSimIO(); new (&io) hex::HexSimIO(std::cin, std::cout);   // closes (flushes) the stream files
  o.files = collectFiles(); chdir("..");
  o.out = os.str(); size_t nl = o.out.find('\n'); if (nl != std::string::npos) o.out = o.out.substr(nl + 1);   // drop the load banner
  in.clear(); std::streampos pos = in.tellg(); o.consumed = pos < 0 ? input.size() : (size_t)pos;
  return o;
}
static bool same(const Out &a, const Out &b, std::string &why) {
  if (a.threw != b.threw) { why = "one tool reports an error"; return false; }
  if (a.threw) return true;
  if ((a.exitCode & 0xFF) != (b.exitCode & 0xFF)) { why = "exit status " + std::to_string(a.exitCode & 0xFF) + " (hexsim) vs " + std::to_string(b.exitCode & 0xFF) + " (hextb)"; return false; }
  if (a.out != b.out) { why = "standard output differs"; return false; }
  if (a.consumed != b.consumed) { why = "input consumption differs"; return false; }
  if (a.files != b.files) { why = "simout files differ: hexsim " + a.files + " vs hextb " + b.files; return false; }
  return true;
}
static bool compileX(const std::string &path, const char *bin) {
  try { std::ostringstream sink; xcmp::Driver d(sink); return d.runCatchExceptions(xcmp::DriverAction::EMIT_BINARY, path, true, bin) == 0; } catch (std::exception &) { return false; }
}
static bool assembleText(const std::string &src, const char *bin) {
  try { hexasm::Lexer lx; hexasm::Parser ps(lx); lx.loadBuffer(src); auto prog = ps.parseProgram(); hexasm::CodeGen cg(prog); cg.emitBin(bin); return true; } catch (std::exception &) { return false; }
}
static std::string genAsm(std::mt19937_64 &rng) {
  // BR start; DATA sp(=2000); scratch words; code: a straight-line/branchy mix that only reads words it has written
  std::ostringstream o; o << "BR start\nDATA 2000\nv0\nDATA 0\nv1\nDATA 0\nstart\n";
  int n = 5 + rng() % 25;
  for (int i = 0; i < n; i++) {
    switch (rng() % 11) {
    case 0: o << "LDAC " << (int)(rng() % 70000) - 35000 << "\n"; break;
    case 1: o << "LDBC " << (int)(rng() % 300) << "\nOPR ADD\n"; break;
    case 2: o << "LDBC " << (int)(rng() % 300) << "\nOPR SUB\n"; break;
    case 3: o << "STAM v" << (rng() % 2) << "\nLDAM v" << (rng() % 2) << "\n"; break;
    case 4: o << "BRZ s" << i << "\nLDAC 7\ns" << i << "\n"; break;
    case 5: o << "BRN n" << i << "\nLDBC 3\nOPR ADD\nn" << i << "\n"; break;
    case 6: { static const unsigned long strms[] = {0, 255, 256, 511, 1024, 2047, 2048, 2304, 4096, 65536 + 512, 2147483904ul, 4294967040ul};
              unsigned long strm = (rng() % 3 == 0) ? strms[rng() % 12] : (unsigned long)(rng() % 256); o << "LDBM 1\nSTAI 2\nLDAC " << strm << "\nSTAI 3\nLDAC 1\nOPR SVC\n"; break; }   // write(areg low byte, stream<256)
    case 7: o << "LDBM 1\nLDAC 0\nSTAI 2\nLDAC 2\nOPR SVC\nLDBM 1\nLDAI 0\nLDBM 1\nLDBI 1\nLDAM 1\nLDAI 1\n"; break;                           // read(stream 0) -> mem[sp+1]; areg = it
    case 8: { int strm = (int)(rng() % 256); o << "LDBM 1\nSTAI 2\nLDAC " << strm << "\nSTAI 3\nLDAC 1\nOPR SVC\nOPR SVC\n"; break; }                 // the same write twice: two SVCs back to back
    case 9: o << "LDBM 1\nLDAC 0\nSTAI 2\nLDAC 2\nOPR SVC\nOPR SVC\nLDBM 1\nLDAI 1\n"; break;                                               // two reads back to back
    default: o << "LDAP p" << i << "\nLDBM 1\nSTAI 4\np" << i << "\n"; break;
    }
  }
  o << "LDBM 1\nSTAI 2\nLDAC 0\nOPR SVC\n";   // exit(areg)
  return o.str();
}
#include <sys/wait.h>
#include <fcntl.h>
int hextb_main(int argc, const char **argv);   // hextb.cpp's main (renamed on the command line)

int main(int argc, char **argv) {
  // cli <binary> <input file> <stdout file> [seed]: hextb's OWN main() in a child process; prints its exit status
  if (argc >= 5 && !strcmp(argv[1], "cli")) {
    fflush(stdout);
    int fi = open(argv[3], O_RDONLY);   // opened here so that the position the child leaves the input at can be read afterwards
    pid_t pid = fork();
    if (pid == 0) {
      int fo = open(argv[4], O_WRONLY | O_CREAT | O_TRUNC, 0644);
      dup2(fi, 0); dup2(fo, 1);
      std::string seedArg = std::string("+verilator+seed+") + (argc > 5 ? argv[5] : "1");
      const char *av[] = {"hextb", argv[2], seedArg.c_str(), "--max-cycles", "3000000"};
      int rc = hextb_main(5, av);
      fflush(stdout); std::cout.flush();
      exit(rc);   // what the process would return (exit() keeps the low 8 bits, as the OS does)
    }
    int st = 0; waitpid(pid, &st, 0);
    long pos = (long)lseek(fi, 0, SEEK_CUR);
    printf("{\"exited\": %s, \"status\": %d, \"input_position\": %ld}\n", WIFEXITED(st) ? "true" : "false", WIFEXITED(st) ? WEXITSTATUS(st) : -WTERMSIG(st), pos);
    return 0;
  }
  if (argc < 5 || strcmp(argv[1], "sweep")) { fprintf(stderr, "usage\n"); return 2; }
  std::mt19937_64 rng(strtoull(argv[2], 0, 10)); long n = atol(argv[3]); std::string tests = argv[4];
  const char *bin = "c06_prog.bin";
  long progs = 0, runs = 0, bad = 0, skipped = 0; std::string why, first;
  auto tryProg = [&](const std::string &name, const std::vector<std::string> &inputs) {
    for (const auto &inp : inputs) {
      if (readsUnwritten(bin, inp)) { skipped++; continue; }
      progs++;
      Out a = runSim(bin, inp);
      for (int s = 0; s < 2; s++) {
        Out b = runTb(bin, inp, 1 + (int)(rng() & 0x7FFFFF));
        runs++;
        std::string w; if (!same(a, b, w)) { if (!bad) { why = w; first = name; } bad++; }
      }
    }
  };
  // shipped X programs that terminate without needing a particular input
  for (const char *x : {"hello_prints.x", "hello_putval.x", "bubblesort.x", "fac.x", "mul.x", "exp2.x", "div.x", "printn.x", "printhex.x", "strlen.x"}) {
    if (compileX(tests + "/x/" + x, bin)) tryProg(x, {"", "a"});
  }
  for (const char *s : {"exit0.S", "exit255.S", "hello.S", "hello_procedure.S"}) {
    std::ifstream f(tests + "/asm/" + s); if (!f) continue; std::stringstream ss; ss << f.rdbuf();
    if (assembleText(ss.str(), bin)) tryProg(s, {""});
  }
  for (long it = 0; it < n; it++) {
    std::string src = genAsm(rng);
    if (!assembleText(src, bin)) continue;
    std::string inp; int len = rng() % 6; for (int i = 0; i < len; i++) inp += (char)(rng() % 256);
    tryProg("generated:\n" + src, {inp, ""});
  }
  unlink(bin);
  std::string esc; for (char c : first) { if (c == '\n') esc += "\\n"; else if (c == '"' || c == '\\') { esc += '\\'; esc += c; } else esc += c; }
  printf("{\"program_input_pairs\": %ld, \"skipped_reads_unwritten_memory\": %ld, \"runs\": %ld, \"bad\": %ld, \"why\": \"%s\", \"first\": \"%s\"}\n", progs, skipped, runs, bad, why.c_str(), esc.c_str());
  return 0;
}

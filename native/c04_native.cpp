// c04_native.cpp -- replay / fidelity / exhaustive sweep for C04 against the REAL hexasm.hpp.
//   replay <MNEMONIC> <int value>          assemble "<MNEMONIC> <value>" through the real Lexer/Parser/CodeGen
//   replay-literal <MNEMONIC> <literal>    same, literal given as text (e.g. 4294967295 or -2147483648)
//   fidelity <seed> <n>                    extracted C (linked in) vs real C++ on boundary + random values
//   sweep <lo> <hi>                        real InstrImm + emitProgramBin for every uint32 in [lo,hi) x 12 mnemonics
// The decoder below is the ISA's prefix rule (spec/isa.h).
#include <cstdio>
#include <cstdint>
#include <cstring>
#include <random>
#include <sstream>
#include <string>
#include <vector>
#include "hexasm.hpp"
extern "C" {
#include "isa.h"
#ifndef NO_EXTRACTED
int X_numNibbles(int v);
size_t X_getSize(int v);
size_t X_emit(int tok_index, int v, size_t size, uint8_t *dst);
int X_parse_literal(int minus, unsigned long n);
#endif
}

static const char *MN[12] = {"LDAM", "LDBM", "STAM", "LDAC", "LDBC", "LDAP", "LDAI", "LDBI", "STAI", "BR", "BRZ", "BRN"};
static const hexasm::Token TK[12] = {hexasm::Token::LDAM, hexasm::Token::LDBM, hexasm::Token::STAM, hexasm::Token::LDAC,
                                     hexasm::Token::LDBC, hexasm::Token::LDAP, hexasm::Token::LDAI, hexasm::Token::LDBI,
                                     hexasm::Token::STAI, hexasm::Token::BR, hexasm::Token::BRZ, hexasm::Token::BRN};
static const unsigned OPC[12] = {0, 1, 2, 3, 4, 5, 6, 7, 8, 9, 0xA, 0xB};

static int mnIndex(const char *m) {
  for (int i = 0; i < 12; i++) if (!strcmp(MN[i], m)) return i;
  return -1;
}

// decode a whole emitted image that holds ONE instruction followed by padding zeros
static bool decodeOne(const std::string &img, size_t declaredSize, unsigned wantOpc, uint32_t wantVal, uint32_t &got, std::string &why) {
  if (declaredSize < 1 || declaredSize > 8 || declaredSize > img.size()) { why = "bad size"; return false; }
  unsigned opc = 0; uint32_t val = 0;
  if (!isa_decode_prefix(reinterpret_cast<const uint8_t *>(img.data()), declaredSize, &opc, &val)) { why = "not PFIX/NFIX* + instruction"; got = 0; return false; }
  got = val;
  for (size_t i = declaredSize; i < img.size(); i++) if (img[i] != 0) { why = "non-zero byte after the instruction"; return false; }
  if (opc != wantOpc) { why = "wrong opcode"; return false; }
  if (val != wantVal) { why = "wrong operand"; return false; }
  return true;
}

static int doReplay(const char *mn, const std::string &literal, bool haveExpected, int64_t expected) {
  int ti = mnIndex(mn);
  if (ti < 0) { printf("{\"ok\": null, \"error\": \"unknown mnemonic\"}\n"); return 2; }
  try {
    hexasm::Lexer lexer;
    hexasm::Parser parser(lexer);
    lexer.loadBuffer(std::string(mn) + " " + literal + "\n");
    auto program = parser.parseProgram();
    hexasm::CodeGen codeGen(program);
    std::ostringstream bin;
    codeGen.emitProgramBin(bin);
    std::string img = bin.str();
    size_t sz = program[0]->getSize();
    uint32_t want = (uint32_t)expected, got = 0;
    std::string why;
    bool ok = decodeOne(img, sz, OPC[ti], want, got, why);
    printf("{\"ok\": %s, \"decoded\": %d, \"expected\": %d, \"size\": %zu, \"bytes\": \"", ok ? "true" : "false", (int)got, (int)want, sz);
    for (unsigned char c : img) printf("%02x", c);
    printf("\", \"why\": \"%s\"}\n", why.c_str());
    return ok ? 0 : 1;
  } catch (std::exception &e) {
    printf("{\"ok\": false, \"decoded\": null, \"expected\": %lld, \"why\": \"exception: %s\"}\n", (long long)expected, e.what());
    return 1;
  }
}

// real encoder on one value, no text path: InstrImm directive -> CodeGen -> emitProgramBin
static bool realEmit(int ti, int v, std::string &img, size_t &sz) {
  std::vector<std::unique_ptr<hexasm::Directive>> program;
  program.push_back(std::make_unique<hexasm::InstrImm>(TK[ti], v));
  hexasm::CodeGen codeGen(program);
  std::ostringstream bin;
  codeGen.emitProgramBin(bin);
  img = bin.str();
  sz = program[0]->getSize();
  return true;
}

int main(int argc, char **argv) {
  if (argc >= 4 && !strcmp(argv[1], "replay")) {
    long long v = atoll(argv[3]);
    return doReplay(argv[2], std::to_string(v), true, v);
  }
  if (argc >= 4 && !strcmp(argv[1], "replay-literal")) {
    std::string lit = argv[3];
    bool neg = lit[0] == '-';
    unsigned long long n = strtoull(lit.c_str() + (neg ? 1 : 0), nullptr, 10);
    int64_t expected = neg ? -(int64_t)n : (int64_t)n;
    return doReplay(argv[2], lit, true, expected);
  }
  if (argc >= 2 && !strcmp(argv[1], "literals")) {
    // boundary literals in both spellings through the real Lexer/Parser/CodeGen, decoded with the ISA rule
    std::vector<std::pair<std::string, int64_t>> lits;
    for (int k = 0; k <= 8; k++) {
      int64_t p = 1LL << (4 * k);
      for (int64_t d = -2; d <= 2; d++) {
        int64_t v = p + d;
        if (v >= 0 && v <= 4294967295LL) lits.push_back({std::to_string(v), v});
        if (v >= 0 && v <= 2147483648LL) lits.push_back({"-" + std::to_string(v), -v});
      }
    }
    for (int64_t v : {2147483646LL, 2147483647LL, 2147483648LL, 2147483649LL, 4294967294LL, 4294967295LL, 3000000000LL, 65535LL, 65536LL, 65537LL}) lits.push_back({std::to_string(v), v});
    for (int64_t v : {2147483647LL, 2147483648LL, 65536LL, 255LL, 256LL}) lits.push_back({"-" + std::to_string(v), -v});
    // decimal is decimal: leading zeros change nothing (no octal), digits 8 and 9 included
    for (const char *z : {"010", "0100", "08", "09", "0256", "00017", "04294967295"}) lits.push_back({z, (int64_t)strtoll(z, 0, 10)});
    for (const char *z : {"010", "0256", "02147483648"}) lits.push_back({std::string("-") + z, -(int64_t)strtoll(z, 0, 10)});
    long bad = 0, n = 0; std::string firstLit, firstMn;
    // source layouts around the literal: newline, nothing at all (the literal is the last thing in the file), CRLF, a
    // tab and trailing comment, several blanks
    static const char *TAIL[] = {"\n", "", "\r\n", "\t# comment\n", "   \n"};
    for (size_t i0 = 0; i0 < lits.size() * 5; i0++) {
      size_t i = i0 % lits.size(); const char *tail = TAIL[i0 / lits.size()];
      const char *mn = MN[(i + i0 / lits.size()) % 12];
      n++;
      bool ok = false;
      try {
        hexasm::Lexer lexer; hexasm::Parser parser(lexer);
        // a preceding instruction with a different literal: a stale lexer value must not leak into the next number
        lexer.loadBuffer(std::string("LDAC 9\n") + mn + " " + lits[i].first + tail);
        auto program = parser.parseProgram();
        hexasm::CodeGen codeGen(program);
        std::ostringstream bin; codeGen.emitProgramBin(bin); std::string img = bin.str();
        size_t off = program[1]->getByteOffset(), sz = program[1]->getSize();
        unsigned opc = 0; uint32_t val = 0;
        ok = sz >= 1 && sz <= 8 && off + sz <= img.size() && isa_decode_prefix(reinterpret_cast<const uint8_t *>(img.data()) + off, sz, &opc, &val) && opc == OPC[(i + i0 / lits.size()) % 12] && val == (uint32_t)lits[i].second;
      } catch (std::exception &) { ok = false; }
      if (!ok) { if (!bad) { firstLit = lits[i].first + (i0 / lits.size() == 1 ? " (last thing in the file, no newline)" : i0 / lits.size() == 2 ? " (CRLF)" : i0 / lits.size() == 3 ? " (tab + comment)" : ""); firstMn = mn; } bad++; }
    }
    printf("{\"checked\": %ld, \"bad\": %ld, \"first_literal\": \"%s\", \"first_token\": \"%s\"}\n", n, bad, firstLit.c_str(), firstMn.c_str());
    return bad ? 1 : 0;
  }
#ifndef NO_EXTRACTED
  if (argc >= 4 && !strcmp(argv[1], "fidelity")) {
    std::mt19937_64 rng(strtoull(argv[2], nullptr, 10));
    long n = atol(argv[3]);
    std::vector<int> vals = {0, 1, -1, 15, 16, 17, -15, -16, -17, 255, 256, 257, -255, -256, -257, 4095, 4096, -4096, -4097, 65535, 65536,
                             -65536, -65537, 0xFFFFF, 0x100000, -0x100000, -0x100001, 0xFFFFFFF, 0x10000000, -0x10000000, -0x10000001,
                             INT32_MAX, INT32_MIN, INT32_MIN + 1, INT32_MAX - 1};
    for (long i = 0; i < n; i++) {
      uint64_t r = rng();
      int bits = 1 + (r >> 58) % 32;
      vals.push_back((int)((uint32_t)(r & 0xFFFFFFFFu) >> (32 - bits)) * ((r >> 40) & 1 ? -1 : 1));
    }
    long mism = 0; std::string first;
    long cnt = 0;
    for (int v : vals) {
      cnt++;
      int a = X_numNibbles(v), b = hexasm::numNibbles(v);
      hexasm::InstrImm d(hexasm::Token::LDAC, v);
      size_t sa = X_getSize(v), sb = d.getSize();
      bool bad = a != b || sa != sb;
      if (!bad && (cnt % 7 == 0 || cnt < 64)) {
        int ti = cnt % 12;
        std::string img; size_t sz;
        realEmit(ti, v, img, sz);
        uint8_t buf[8]; size_t l = X_emit(ti, v, sb >= 1 && sb <= 8 ? sb : 1, buf);
        // same bytes; the real image continues with word-alignment padding zeros only
        if (l > img.size() || l > 8 || memcmp(buf, img.data(), l) != 0) bad = true;
        for (size_t q = l; !bad && q < img.size(); q++) if (img[q] != 0) bad = true;
      }
      if (!bad && cnt % 5 == 0) {
        // literal path
        uint32_t mag = v < 0 ? 0u - (uint32_t)v : (uint32_t)v;
        hexasm::Lexer lexer; hexasm::Parser parser(lexer);
        lexer.loadBuffer(std::string("DATA ") + (v < 0 ? "-" : "") + std::to_string(mag) + "\n");
        auto program = parser.parseProgram();
        int real = program[0]->getValue();
        int ext = X_parse_literal(v < 0, mag);
        if (real != ext) bad = true;
      }
      if (bad) { if (!mism) first = std::to_string(v); mism++; }
    }
    printf("{\"compared\": %ld, \"mismatches\": %ld, \"first\": \"%s\"}\n", cnt, mism, first.c_str());
    return mism ? 1 : 0;
  }
#endif
  if (argc >= 4 && !strcmp(argv[1], "sweep")) {
    uint64_t lo = strtoull(argv[2], nullptr, 10), hi = strtoull(argv[3], nullptr, 10);
    uint64_t checked = 0, bad = 0; int firstV = 0; int firstT = 0;
    // batches of directives per CodeGen to amortise the constructor
    const size_t B = 4096;
    for (uint64_t base = lo; base < hi; base += B) {
      uint64_t end = base + B < hi ? base + B : hi;
      for (int ti = 0; ti < 12; ti++) {
        std::vector<std::unique_ptr<hexasm::Directive>> program;
        for (uint64_t u = base; u < end; u++) program.push_back(std::make_unique<hexasm::InstrImm>(TK[ti], (int)(uint32_t)u));
        hexasm::CodeGen codeGen(program);
        std::ostringstream bin;
        codeGen.emitProgramBin(bin);
        std::string img = bin.str();
        size_t off = 0;
        for (uint64_t u = base; u < end; u++) {
          auto &d = program[u - base];
          size_t sz = d->getSize();
          bool ok = d->getByteOffset() == off && sz >= 1 && sz <= 8 && off + sz <= img.size();
          unsigned opc = 0; uint32_t val = 0;
          ok = ok && isa_decode_prefix(reinterpret_cast<const uint8_t *>(img.data()) + off, sz, &opc, &val) && opc == OPC[ti] && val == (uint32_t)u;
          checked++;
          if (!ok) { if (!bad) { firstV = (int)(uint32_t)u; firstT = ti; } bad++; }
          off += sz;
        }
      }
    }
    printf("{\"checked\": %llu, \"bad\": %llu, \"first\": {\"value\": %d, \"token\": \"%s\"}}\n", (unsigned long long)checked, (unsigned long long)bad, firstV, MN[firstT]);
    return bad ? 1 : 0;
  }
  fprintf(stderr, "usage\n");
  return 2;
}

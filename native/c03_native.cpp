// c03_native.cpp -- replay / sweep for C03 on the natively Verilated model (verilator --trace, as the CMake build).
//   replay <pc> <areg> <breg> <oreg> <word at pc>>2> <ea> <data at ea>
//   sweep <seed> <n>
#include <cstdio>
#include <cstdint>
#include <cstring>
#include <random>
#include <string>
#include <memory>
#include <verilated.h>
#include "Vhexn.h"
#include "Vhexn__Syms.h"
#include "Vhexn___024root.h"
#include "Vhexn_hex.h"
#include "Vhexn_processor.h"
#include "Vhexn_memory.h"
extern "C" {
#include "isa.h"
}
double sc_time_stamp() { return 0; }

struct Dut {
  std::unique_ptr<VerilatedContext> ctx{new VerilatedContext};
  std::unique_ptr<Vhexn> top;
  Dut() { const char *av[] = {"c03_native"}; ctx->commandArgs(1, av); ctx->randReset(0); top.reset(new Vhexn{ctx.get(), "TOP"}); top->i_clk = 0; top->i_rst = 0; top->eval(); }
  Vhexn_processor *r() { return top->hex->u_processor; }
  uint32_t *mem() { return &top->hex->u_memory->memory_q[0]; }
  void set(uint32_t pc, uint32_t a, uint32_t b, uint32_t o) {
    r()->pc_q = pc & 0x1FFFFF; r()->__PVT__areg_q = a;
    r()->__PVT__breg_q = b; r()->__PVT__oreg_q = o;
    // settle every net with the planted registers: re-run the generated initial/settle code (as at time zero) with clock and reset low
    top->i_clk = 0; top->i_rst = 0; top->rootp->vlSymsp->__Vm_didInit = false; top->eval();
  }
};

// returns "" if the clock matches the ISA step, else what differs; usable=false when outside the property's range
static std::string clockVsIsa(Dut &d, uint32_t pc, uint32_t a, uint32_t b, uint32_t o, bool &usable) {
  uint32_t *M = d.mem();
  isa_state s{pc, a, b, o, true, 0}; isa_write w; isa_event ev; isa_status st;
  isa_step(&s, M, 0, &w, &ev, &st);
  uint32_t byte = (M[pc >> 2] >> ((pc & 3) << 3)) & 0xFF;
  bool svc = (byte >> 4) == I_OPR && ((o | (byte & 0xF)) == O_SVC);
  if (svc) { st.defined = true; st.in_range = true; w.wr = false; }
  usable = st.defined && st.in_range && (o & 0xF) == 0 && pc < 4 * ISA_MEM_WORDS && s.pc < 4 * ISA_MEM_WORDS && (((byte >> 4) != I_LDAP) || s.areg < 4 * ISA_MEM_WORDS);
  if (!usable) return "";
  d.set(pc, a, b, o);
  uint32_t oldw = w.wr ? M[w.waddr] : 0;
  std::string why;
  if ((d.top->o_syscall_valid != 0) != svc) why = "syscall request";
  else if (svc && d.top->o_syscall != (a & 3)) why = "syscall number";
  d.top->i_clk = 1; d.top->eval();
  auto *r = d.r();
  if (why.empty()) {
    if (r->pc_q != s.pc) why = "pc";
    else if (r->__PVT__areg_q != s.areg) why = "areg";
    else if (r->__PVT__breg_q != s.breg) why = "breg";
    else if (r->__PVT__oreg_q != s.oreg) why = "oreg";
    else if (w.wr && M[w.waddr] != w.wdata) why = "stored word";
  }
  uint32_t pc1 = r->pc_q, a1 = r->__PVT__areg_q;
  d.top->i_clk = 0; d.top->eval();
  if (why.empty() && (r->pc_q != pc1 || r->__PVT__areg_q != a1)) why = "state changed on the falling edge";
  if (w.wr) M[w.waddr] = oldw;
  return why;
}

int main(int argc, char **argv) {
  Verilated::commandArgs(argc, argv);
  if (argc >= 9 && !strcmp(argv[1], "replay")) {
    Dut d; uint32_t *M = d.mem();
    memset(M, 0, 524288 * 4);
    uint32_t pc = strtoul(argv[2], 0, 0), a = strtoul(argv[3], 0, 0), b = strtoul(argv[4], 0, 0), o = strtoul(argv[5], 0, 0);
    uint32_t word = strtoul(argv[6], 0, 0), ea = strtoul(argv[7], 0, 0), data = strtoul(argv[8], 0, 0);
    if (ea < 524288) M[ea] = data;
    M[(pc >> 2) & 0x7FFFF] = word;
    bool usable; std::string why = clockVsIsa(d, pc, a, b, o, usable);
    if (!usable) { printf("{\"ok\": null, \"why\": \"state outside the property's range\"}\n"); return 2; }
    printf("{\"ok\": %s, \"why\": \"%s\"}\n", why.empty() ? "true" : "false", why.c_str());
    return why.empty() ? 0 : 1;
  }
  // reset <pc> <areg> <breg> <oreg>: plant a power-on register state, assert reset with the clock low, give one rising
  // edge, release reset with the clock low: the registers must be the simulator's start state (all zero)
  if (argc >= 6 && !strcmp(argv[1], "reset")) {
    Dut d; uint32_t *M = d.mem(); memset(M, 0, 524288 * 4);
    auto *r = d.r();
    r->pc_q = strtoul(argv[2], 0, 0) & 0x1FFFFF; r->__PVT__areg_q = strtoul(argv[3], 0, 0); r->__PVT__breg_q = strtoul(argv[4], 0, 0); r->__PVT__oreg_q = strtoul(argv[5], 0, 0);
    d.top->i_clk = 0; d.top->i_rst = 1; d.top->eval();
    d.top->i_clk = 1; d.top->eval();
    d.top->i_clk = 0; d.top->eval();
    d.top->i_rst = 0; d.top->eval();
    std::string why;
    if (r->pc_q != 0) why = "pc"; else if (r->__PVT__areg_q != 0) why = "areg"; else if (r->__PVT__breg_q != 0) why = "breg"; else if (r->__PVT__oreg_q != 0) why = "oreg";
    printf("{\"ok\": %s, \"why\": \"%s after reset is %u, the simulator starts with 0\", \"regs\": [%u, %u, %u, %u]}\n", why.empty() ? "true" : "false", why.c_str(),
           why == "pc" ? r->pc_q : why == "areg" ? r->__PVT__areg_q : why == "breg" ? r->__PVT__breg_q : r->__PVT__oreg_q, r->pc_q, r->__PVT__areg_q, r->__PVT__breg_q, r->__PVT__oreg_q);
    return why.empty() ? 0 : 1;
  }
  if (argc >= 4 && !strcmp(argv[1], "sweep")) {
    std::mt19937_64 rng(strtoull(argv[2], 0, 10)); long n = atol(argv[3]);
    Dut d; uint32_t *M = d.mem(); memset(M, 0, 524288 * 4);
    long compared = 0, mism = 0, skipped = 0; char first[256] = "null";
    auto corner = [&](uint64_t x) -> uint32_t { switch (x & 7) { case 0: return 0; case 1: return 0xFFFFFFFFu; case 2: return 0x80000000u; case 3: return 0x7FFFFFFFu;
      case 4: return (uint32_t)(x >> 8) % 200000u; case 5: return 199999u - (uint32_t)((x >> 8) % 4); default: return (uint32_t)(x >> 8); } };
    for (long it = 0; it < n; it++) {
      uint64_t x = rng(), y = rng(), z = rng();
      uint32_t pc = (it % 16 == 0) ? 799990u + (uint32_t)(x % 10) : (uint32_t)(x % 800000u);
      uint32_t a = corner(y), b = corner(y >> 20), o = ((z & 3) == 0) ? 0 : (((z >> 4) & 0xFFFF) << 4);
      if ((z & 15) == 5) o = corner(z >> 8) & ~0xFu;
      uint8_t byte = (uint8_t)it;  // exhaustive byte grid
      uint32_t word = (uint32_t)rng(); word = (word & ~(0xFFu << ((pc & 3) << 3))) | ((uint32_t)byte << ((pc & 3) << 3));
      uint32_t opr = o | (byte & 0xF);
      uint32_t ea = ((byte >> 4) == 6) ? a + opr : ((byte >> 4) == 7 || (byte >> 4) == 8) ? b + opr : opr;
      uint32_t data = (uint32_t)rng();
      uint32_t eaOld = 0; if (ea < 200000) { eaOld = M[ea]; M[ea] = data; }
      uint32_t wOld = M[pc >> 2]; M[pc >> 2] = word;
      bool usable; std::string why = clockVsIsa(d, pc, a, b, o, usable);
      if (usable) { compared++; if (!why.empty()) { if (!mism) snprintf(first, sizeof first, "{\"pc\": %u, \"areg\": %u, \"breg\": %u, \"oreg\": %u, \"word\": %u, \"ea\": %u, \"data\": %u}", pc, a, b, o, word, ea < 200000 ? ea : 0, ea < 200000 ? data : M[0]); mism++; } }
      else skipped++;
      M[pc >> 2] = wOld; if (ea < 200000) M[ea] = (ea == (pc >> 2)) ? wOld : eaOld;
    }
    printf("{\"compared\": %ld, \"skipped_outside_range\": %ld, \"mismatches\": %ld, \"first\": %s}\n", compared, skipped, mism, first);
    return 0;
  }
  fprintf(stderr, "usage\n"); return 2;
}

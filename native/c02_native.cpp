// c02_native.cpp -- replay / fidelity for C02 against the REAL hexsim::Processor.
//   replay <pc> <areg> <breg> <oreg> <in_byte> (<addr> <value>)*   one instruction of the real simulator vs isa_step
//   fidelity <seed> <n>          real step vs extracted step (linked C) vs isa_step on seeded states
#include <cstdlib>
#include <cstdio>
#include <cstdint>
#include <cstring>
#include <memory>
#include <random>
#include <sstream>
#include <string>
#include <vector>
#include <unistd.h>
#include "hexsim.hpp"
extern "C" {
#include "isa.h"
typedef struct { uint32_t pc, areg, breg, oreg; int running, exitCode, thrown; int io_calls, ev_kind, ev_to_file, ev_file, ev_byte; } XState;
#ifndef NO_EXTRACTED
void X_step(XState *x, uint32_t *mem, int in_byte);
#else
static void X_step(XState *x, uint32_t *mem, int in_byte) { (void)x; (void)mem; (void)in_byte; }
#endif
}

struct HexVerifAccess {
  static uint32_t &pc(hexsim::Processor &p) { return p.pc; }
  static uint32_t &areg(hexsim::Processor &p) { return p.areg; }
  static uint32_t &breg(hexsim::Processor &p) { return p.breg; }
  static uint32_t &oreg(hexsim::Processor &p) { return p.oreg; }
  static uint32_t *memory(hexsim::Processor &p) { return p.memory.data(); }
  static bool &running(hexsim::Processor &p) { return p.running; }
  static int &exitCode(hexsim::Processor &p) { return p.exitCode; }
  // run() executes exactly one iteration of its loop when cycles == maxCycles == 1
  static void oneStepSetup(hexsim::Processor &p) { p.cycles = 1; p.maxCycles = 1; p.running = true; }
  // ... and exactly K iterations (unless the program exits first) when cycles == 1 and maxCycles == K
  static void kStepSetup(hexsim::Processor &p, size_t K) { p.cycles = 1; p.maxCycles = K; p.running = true; }
};

struct Real {
  std::istringstream in;
  std::ostringstream out;
  std::unique_ptr<hexsim::Processor> p;
  Real() : p(new hexsim::Processor(in, out, 0)) {}
};

struct Outcome { uint32_t pc, areg, breg, oreg; bool running; int exitCode; bool thrown; std::string out; bool consumed; };

// one instruction on the real simulator. mem: the processor's own array (already planted)
static Outcome realStep(Real &r, uint32_t pc, uint32_t a, uint32_t b, uint32_t o, int in_byte) {
  r.in.clear(); r.in.str(in_byte >= 0 ? std::string(1, (char)in_byte) : std::string());
  r.out.str("");
  HexVerifAccess::pc(*r.p) = pc; HexVerifAccess::areg(*r.p) = a; HexVerifAccess::breg(*r.p) = b; HexVerifAccess::oreg(*r.p) = o;
  HexVerifAccess::exitCode(*r.p) = 0;
  HexVerifAccess::oneStepSetup(*r.p);
  Outcome oc{};
  try { r.p->run(); } catch (std::exception &) { oc.thrown = true; }
  oc.pc = HexVerifAccess::pc(*r.p); oc.areg = HexVerifAccess::areg(*r.p); oc.breg = HexVerifAccess::breg(*r.p); oc.oreg = HexVerifAccess::oreg(*r.p);
  oc.running = HexVerifAccess::running(*r.p); oc.exitCode = HexVerifAccess::exitCode(*r.p); oc.out = r.out.str();
  oc.consumed = in_byte >= 0 ? (r.in.peek() == EOF) : r.in.eof();
  return oc;
}

static std::string hexScratch(const char *leaf) { const char *b = getenv("HEX_SCRATCH"); return std::string(b && *b ? b : "/var/tmp") + "/" + leaf; } // scratch files live under out/<ID>/scratch (wiped with it)
static std::string cmp(const Outcome &oc, const isa_state &s, const isa_event &ev, const isa_write &w, const uint32_t *memAfter, uint32_t oldAtW, int in_byte) {
  if (oc.thrown) return "error raised";
  if (oc.pc != s.pc) return "pc";
  if (oc.areg != s.areg) return "areg";
  if (oc.breg != s.breg) return "breg";
  if (oc.oreg != s.oreg) return "oreg";
  if (oc.running != s.running) return "running";
  if (!s.running && oc.exitCode != (int)s.exit_value) return "exit value";
  if (w.wr && memAfter[w.waddr] != w.wdata) return "stored word";
  if (ev.kind == EV_WRITE && !ev.to_file && (oc.out.size() != 1 || (uint8_t)oc.out[0] != ev.byte)) return "stdout byte";
  if (!(ev.kind == EV_WRITE && !ev.to_file) && !oc.out.empty()) return "spurious stdout";
  return "";
}

// K iterations inside ONE call of the real run() against isa_step applied K times.  "" = equal, "outside" = the ISA run
// leaves the property's quantifier before K steps, anything else = first difference.
static std::string multiRun(int K, uint32_t pc, uint32_t a, uint32_t b, uint32_t o, const std::string &input, const std::vector<std::pair<uint32_t, uint32_t>> &plant) {
  Real r;
  uint32_t *M = HexVerifAccess::memory(*r.p);
  std::vector<uint32_t> S(ISA_MEM_WORDS, 0);
  for (size_t i = plant.size(); i-- > 0;) if (plant[i].first < ISA_MEM_WORDS) S[plant[i].first] = plant[i].second;   // earlier entries win
  memcpy(M, S.data(), ISA_MEM_WORDS * 4);
  // reference run
  isa_state s{pc, a, b, o, true, 0}; std::string refOut; size_t inPos = 0; int steps = 0;
  for (int i = 0; i < K && s.running; i++) {
    isa_write w; isa_event ev; isa_status st;
    int inb = inPos < input.size() ? (int)(uint8_t)input[inPos] : -1;
    isa_state probe = s; isa_step(&probe, S.data(), inb, &w, &ev, &st);
    if (!st.defined || !st.in_range || ((ev.kind == EV_WRITE || ev.kind == EV_READ) && ev.to_file)) return "outside";
    s = probe;
    if (w.wr) S[w.waddr] = w.wdata;
    if (ev.kind == EV_WRITE) refOut.push_back((char)ev.byte);
    if (ev.kind == EV_READ && inPos < input.size()) inPos++;
    steps++;
  }
  r.in.clear(); r.in.str(input); r.out.str("");
  HexVerifAccess::pc(*r.p) = pc; HexVerifAccess::areg(*r.p) = a; HexVerifAccess::breg(*r.p) = b; HexVerifAccess::oreg(*r.p) = o;
  HexVerifAccess::exitCode(*r.p) = 0;
  HexVerifAccess::kStepSetup(*r.p, (size_t)K);
  bool thrown = false;
  try { r.p->run(); } catch (std::exception &) { thrown = true; }
  if (thrown) return "error raised";
  char buf[160];
  if (HexVerifAccess::pc(*r.p) != s.pc || HexVerifAccess::areg(*r.p) != s.areg || HexVerifAccess::breg(*r.p) != s.breg || HexVerifAccess::oreg(*r.p) != s.oreg) {
    snprintf(buf, sizeof buf, "after %d steps of one run(): real pc/areg/breg/oreg = %u/%u/%u/%u, ISA = %u/%u/%u/%u", steps, HexVerifAccess::pc(*r.p), HexVerifAccess::areg(*r.p),
             HexVerifAccess::breg(*r.p), HexVerifAccess::oreg(*r.p), s.pc, s.areg, s.breg, s.oreg);
    return buf;
  }
  if (HexVerifAccess::running(*r.p) != s.running) return "running flag differs after the run";
  if (!s.running && HexVerifAccess::exitCode(*r.p) != (int)s.exit_value) return "exit value differs";
  if (r.out.str() != refOut) return "standard output differs";
  if (memcmp(M, S.data(), ISA_MEM_WORDS * 4) != 0) return "memory differs after the run";
  return "";
}

int main(int argc, char **argv) {
  if (argc >= 7 && !strcmp(argv[1], "replay")) {
    std::string tmplS = hexScratch("hexc02.XXXXXX"); char *d = mkdtemp(&tmplS[0]); if (d) chdir(d);
    Real r;
    uint32_t *M = HexVerifAccess::memory(*r.p);
    memset(M, 0, ISA_MEM_WORDS * 4);
    uint32_t pc = strtoul(argv[2], 0, 0), a = strtoul(argv[3], 0, 0), b = strtoul(argv[4], 0, 0), o = strtoul(argv[5], 0, 0);
    int in_byte = atoi(argv[6]);
    for (int i = 7; i + 1 < argc; i += 2) { uint32_t ad = strtoul(argv[i], 0, 0); if (ad < ISA_MEM_WORDS) M[ad] = strtoul(argv[i + 1], 0, 0); }
    std::vector<uint32_t> pre(M, M + ISA_MEM_WORDS);
    isa_state s{pc, a, b, o, true, 0}; isa_write w; isa_event ev; isa_status st;
    isa_step(&s, pre.data(), in_byte, &w, &ev, &st);
    if (!st.defined || !st.in_range) { printf("{\"ok\": null, \"why\": \"state outside the property's quantifier (undefined byte or address out of range)\"}\n"); return 2; }
    bool fileOp = (ev.kind == EV_WRITE || ev.kind == EV_READ) && ev.to_file;
    if (fileOp && ev.kind == EV_READ) { // provide simin<n> holding the oracle byte
      std::string fn = "simin" + std::to_string(ev.file_index);
      FILE *f = fopen(fn.c_str(), "wb"); if (f) { if (in_byte >= 0) fputc(in_byte, f); fclose(f); }
    }
    Outcome oc = realStep(r, pc, a, b, o, in_byte);
    std::string why = cmp(oc, s, ev, w, M, 0, in_byte);
    if (why.empty() && fileOp && ev.kind == EV_WRITE) {
      std::vector<uint32_t> keep(M, M + ISA_MEM_WORDS);
      r.p.reset(); // closes (flushes) the stream files
      std::string fn = "simout" + std::to_string(ev.file_index);
      FILE *f = fopen(fn.c_str(), "rb");
      if (!f) why = "file " + fn + " not written";
      else { int c0 = fgetc(f), c1 = fgetc(f); fclose(f); if (c0 != ev.byte || c1 != EOF) why = "content of " + fn; }
      for (int q = 0; why.empty() && q < 8; q++) if (q != (int)ev.file_index) { std::string g = "simout" + std::to_string(q); if (access(g.c_str(), F_OK) == 0) why = "unexpected file " + g; }
      r.p.reset(new hexsim::Processor(r.in, r.out, 0)); M = HexVerifAccess::memory(*r.p); memcpy(M, keep.data(), ISA_MEM_WORDS * 4);
    }
    if (why.empty()) for (uint32_t k = 0; k < ISA_MEM_WORDS; k++) { uint32_t want = (w.wr && w.waddr == k) ? w.wdata : pre[k]; if (M[k] != want) { why = "memory frame at word " + std::to_string(k); break; } }
    printf("{\"ok\": %s, \"why\": \"%s\", \"real\": {\"pc\": %u, \"areg\": %u, \"breg\": %u, \"oreg\": %u, \"running\": %d, \"exit\": %d}, \"isa\": {\"pc\": %u, \"areg\": %u, \"breg\": %u, \"oreg\": %u, \"running\": %d, \"exit\": %d}}\n",
           why.empty() ? "true" : "false", why.c_str(), oc.pc, oc.areg, oc.breg, oc.oreg, oc.running, oc.exitCode, s.pc, s.areg, s.breg, s.oreg, s.running, (int)s.exit_value);
    if (d) { chdir("/"); std::string c = std::string("rm -rf ") + d; system(c.c_str()); }
    return why.empty() ? 0 : 1;
  }
  if (argc >= 4 && !strcmp(argv[1], "fidelity")) {
    std::mt19937_64 rng(strtoull(argv[2], 0, 10));
    long n = atol(argv[3]);
    Real r;
    uint32_t *M = HexVerifAccess::memory(*r.p);
    memset(M, 0, ISA_MEM_WORDS * 4);
    std::vector<uint32_t> X(ISA_MEM_WORDS, 0);
    long compared = 0, em = 0, sm = 0, skipped = 0; std::string fe, fs;
    auto corner = [&](uint64_t x) -> uint32_t {
      switch (x & 7) { case 0: return 0; case 1: return 0xFFFFFFFFu; case 2: return 0x80000000u; case 3: return 0x7FFFFFFFu;
        case 4: return (uint32_t)(x >> 8) % 200000u; case 5: return 199999u - (uint32_t)((x >> 8) % 4); default: return (uint32_t)(x >> 8); }
    };
    for (long it = 0; it < n; it++) {
      uint64_t x = rng(), y = rng(), z = rng();
      uint32_t pc = (it % 16 == 0) ? (799996u + (uint32_t)(x % 4)) : (uint32_t)(x % 800000u);
      uint32_t a = corner(y), b = corner(y >> 20), o = ((z & 3) == 0) ? corner(z >> 4) : ((z >> 4) & 0xF) << 4 * ((z >> 8) % 8);
      uint8_t byte = (uint8_t)(x >> 32);
      if (it % 5 == 0) { byte = 0xD0 | ((x >> 40) & 3); o &= ~0xFu; if (it % 10 == 0) o = 0; }
      int in_byte = (int)((z >> 40) % 258) - 1; if (in_byte > 255) in_byte = -1;
      uint32_t sp = (it % 3 == 0) ? (uint32_t)(rng() % 199990u) : corner(rng());
      // plant: instruction byte, sp, a few data words
      uint32_t touched[8]; int nt = 0;
      auto plant = [&](uint32_t ad, uint32_t v) { if (ad < ISA_MEM_WORDS) { M[ad] = v; X[ad] = v; touched[nt++] = ad; } };
      plant(1, sp);
      if (sp + 3 < ISA_MEM_WORDS && sp + 3 > sp) { plant(sp + 2, (uint32_t)rng()); plant(sp + 3, (it % 4) ? (uint32_t)(rng() % 256) : (uint32_t)rng()); }
      uint32_t word = (uint32_t)rng(); word = (word & ~(0xFFu << ((pc & 3) << 3))) | ((uint32_t)byte << ((pc & 3) << 3));
      plant(pc >> 2, word);
      uint32_t opr = o | (byte & 0xF);
      plant(opr, (uint32_t)rng()); plant(a + opr, (uint32_t)rng());
      isa_state s{pc, a, b, o, true, 0}; isa_write w; isa_event ev; isa_status st;
      isa_step(&s, M, in_byte, &w, &ev, &st);
      bool usable = st.defined && st.in_range && !((ev.kind == EV_WRITE || ev.kind == EV_READ) && ev.to_file);
      if (usable) {
        uint32_t oldw = w.wr ? M[w.waddr] : 0;
        XState xs{pc, a, b, o, 1, 0, 0, 0, 0, 0, 0, 0};
        X_step(&xs, X.data(), in_byte);
        Outcome oc = realStep(r, pc, a, b, o, in_byte);
        compared++;
#ifdef NO_EXTRACTED
        bool ediff = false;
#else
        bool ediff = xs.pc != oc.pc || xs.areg != oc.areg || xs.breg != oc.breg || xs.oreg != oc.oreg || (xs.running != 0) != oc.running ||
                     (!oc.running && xs.exitCode != oc.exitCode) || (xs.thrown != 0) != oc.thrown || (w.wr && X[w.waddr] != M[w.waddr]) ||
                     ((xs.ev_kind == EV_WRITE) != (oc.out.size() == 1)) || (oc.out.size() == 1 && (uint8_t)oc.out[0] != (uint8_t)xs.ev_byte);
#endif
        char buf[256];
        snprintf(buf, sizeof buf, "{\"pc\": %u, \"areg\": %u, \"breg\": %u, \"oreg\": %u, \"in\": %d, \"mem\": [%u, %u, 1, %u, %u, %u, %u, %u, %u, %u]}", pc, a, b, o, in_byte,
                 pc >> 2, word, sp, opr < ISA_MEM_WORDS ? opr : 1, opr < ISA_MEM_WORDS ? M[opr] : sp, sp + 2 < ISA_MEM_WORDS ? sp + 2 : 1, sp + 2 < ISA_MEM_WORDS ? M[sp + 2] : sp,
                 sp + 3 < ISA_MEM_WORDS ? sp + 3 : 1, sp + 3 < ISA_MEM_WORDS ? M[sp + 3] : sp);
        if (ediff) { if (!em) fe = buf; em++; }
        std::string why = cmp(oc, s, ev, w, M, oldw, in_byte);
        if (!why.empty()) { if (!sm) fs = buf; sm++; }
        if (w.wr) { M[w.waddr] = 0; X[w.waddr] = 0; }
      } else skipped++;
      for (int i = 0; i < nt; i++) { M[touched[i]] = 0; X[touched[i]] = 0; }
    }
    printf("{\"compared\": %ld, \"skipped_outside_quantifier\": %ld, \"extract_mismatches\": %ld, \"spec_mismatches\": %ld, \"first_extract\": %s, \"first_spec\": %s}\n",
           compared, skipped, em, sm, em ? fe.c_str() : "null", sm ? fs.c_str() : "null");
    return 0;
  }
  // multi <K> <pc> <a> <b> <o> <nin> <in bytes...> (<addr> <value>)*
  //   ONE call of the real run() executing K iterations (cycles = 1, maxCycles = K) vs isa_step applied K times
  if (argc >= 8 && !strcmp(argv[1], "multi")) {
    std::string tmplS = hexScratch("hexc02.XXXXXX"); char *d = mkdtemp(&tmplS[0]); if (d) chdir(d);
    int K = atoi(argv[2]);
    uint32_t pc = strtoul(argv[3], 0, 0), a = strtoul(argv[4], 0, 0), b = strtoul(argv[5], 0, 0), o = strtoul(argv[6], 0, 0);
    int nin = atoi(argv[7]); std::string input; int ai = 8;
    for (int i = 0; i < nin && ai < argc; i++, ai++) input.push_back((char)atoi(argv[ai]));
    std::vector<std::pair<uint32_t, uint32_t>> plant;
    for (; ai + 1 < argc; ai += 2) plant.push_back({(uint32_t)strtoul(argv[ai], 0, 0), (uint32_t)strtoul(argv[ai + 1], 0, 0)});
    std::string why = multiRun(K, pc, a, b, o, input, plant);
    if (d) { chdir("/"); std::string c = std::string("rm -rf ") + d; system(c.c_str()); }
    if (why == "outside") { printf("{\"ok\": null, \"why\": \"run leaves the property's quantifier (undefined byte, address out of range or stream file)\"}\n"); return 2; }
    printf("{\"ok\": %s, \"why\": \"%s\"}\n", why.empty() ? "true" : "false", why.c_str());
    return why.empty() ? 0 : 1;
  }
  // multisweep <seed> <n>: short runs (2..6 instructions in one run() call) from seeded states, among them runs that
  // store into the word they are executing, take a branch into a word just stored, or read input into the code
  if (argc >= 4 && !strcmp(argv[1], "multisweep")) {
    std::string tmplS = hexScratch("hexc02.XXXXXX"); char *d = mkdtemp(&tmplS[0]); if (d) chdir(d);
    std::mt19937_64 rng(strtoull(argv[2], 0, 10) * 7919 + 13);
    long n = atol(argv[3]), compared = 0, outside = 0, bad = 0; std::string first;
    static const uint8_t SIMPLE[] = {0x30, 0x31, 0x37, 0x3F, 0x40, 0x45, 0x4F, 0xD1, 0xD2, 0xF1, 0xB0, 0x50, 0x00, 0x12, 0x61, 0x71};
    auto simple = [&]() { return SIMPLE[rng() % sizeof SIMPLE]; };
    auto simpleWord = [&]() { return (uint32_t)simple() | (uint32_t)simple() << 8 | (uint32_t)simple() << 16 | (uint32_t)simple() << 24; };
    for (long it = 0; it < n; it++) {
      std::vector<std::pair<uint32_t, uint32_t>> plant; std::string input;
      uint32_t pc, a = (uint32_t)rng(), b = (uint32_t)rng(), o = 0; int K = 2 + (int)(rng() % 5);
      uint32_t sp = 1000 + (uint32_t)(rng() % 1000);
      plant.push_back({1, sp}); plant.push_back({sp + 1, (uint32_t)rng()}); plant.push_back({sp + 2, (uint32_t)(rng() % 256)}); plant.push_back({sp + 3, 0});
      int kind = (int)(it % 6);
      if (kind == 0) {            // STAM W executed inside word W (2..15), areg = the replacement word
        uint32_t W = 2 + (uint32_t)(rng() % 14); int pos = (int)(rng() % 3);
        uint32_t word = simpleWord(); word = (word & ~(0xFFu << (8 * pos))) | (uint32_t)(0x20 | W) << (8 * pos);
        plant.push_back({W, word}); pc = 4 * W + pos; a = simpleWord();
      } else if (kind == 1) {     // STAI: breg + operand == current word
        uint32_t W = 20 + (uint32_t)(rng() % 5000); uint32_t opr = (uint32_t)(rng() % 16); int pos = (int)(rng() % 3);
        uint32_t word = simpleWord(); word = (word & ~(0xFFu << (8 * pos))) | (uint32_t)(0x80 | opr) << (8 * pos);
        plant.push_back({W, word}); pc = 4 * W + pos; b = W - opr; a = simpleWord();
      } else if (kind == 2) {     // READ whose result slot sp+1 is the word being executed
        uint32_t W = 20 + (uint32_t)(rng() % 5000); int pos = (int)(rng() % 3);
        uint32_t word = simpleWord(); word = (word & ~(0xFFu << (8 * pos))) | (uint32_t)0xD3 << (8 * pos);
        plant.clear(); plant.push_back({1, W - 1}); plant.push_back({W + 1, 0}); plant.push_back({W, word}); pc = 4 * W + pos; a = 2;
        input.push_back((char)simple());
      } else if (kind == 3) {     // store into the NEXT word, then fall through into it
        uint32_t W = 2 + (uint32_t)(rng() % 13);
        uint32_t word = simpleWord(); word = (word & 0x00FFFFFFu) | (uint32_t)(0x20 | (W + 1)) << 24;
        plant.push_back({W, word}); plant.push_back({W + 1, simpleWord()}); pc = 4 * W + 3; a = simpleWord();
      } else if (kind == 4) {     // prefix chain, then a store into the current word, then the rest of the word
        uint32_t W = 0x100 + (uint32_t)(rng() % 0xE00);
        uint32_t word = (0xE0u | ((W >> 8) & 0xF)) | (0xE0u | ((W >> 4) & 0xF)) << 8 | (0x20u | (W & 0xF)) << 16 | (uint32_t)simple() << 24;
        plant.push_back({W, word}); pc = 4 * W; a = (simpleWord() & 0xFF000000u) | (word & 0x00FFFFFFu); if (rng() & 1) a = simpleWord();
      } else {                    // plain random straight-line code over two words
        uint32_t W = 20 + (uint32_t)(rng() % 100000);
        plant.push_back({W, simpleWord()}); plant.push_back({W + 1, simpleWord()}); pc = 4 * W + (uint32_t)(rng() % 4);
      }
      for (int q = 0; q < 20; q++) plant.push_back({(uint32_t)(rng() % 16), (uint32_t)rng() % 64});   // data words the simple loads may read (earlier entries win)
      std::string why = multiRun(K, pc, a, b, o, input, plant);
      if (why == "outside") { outside++; continue; }
      compared++;
      if (!why.empty()) {
        if (!bad) {
          char buf[128]; snprintf(buf, sizeof buf, "{\"K\": %d, \"pc\": %u, \"areg\": %u, \"breg\": %u, \"oreg\": %u, \"input\": [", K, pc, a, b, o); first = buf;
          for (size_t i = 0; i < input.size(); i++) first += (i ? ", " : "") + std::to_string((int)(uint8_t)input[i]);
          first += "], \"mem\": [";
          for (size_t i = 0; i < plant.size(); i++) first += (i ? ", " : "") + std::to_string(plant[i].first) + ", " + std::to_string(plant[i].second);
          first += "], \"why\": \"" + why + "\"}";
        }
        bad++;
      }
    }
    if (d) { chdir("/"); std::string c = std::string("rm -rf ") + d; system(c.c_str()); }
    printf("{\"runs_compared\": %ld, \"outside_quantifier\": %ld, \"mismatches\": %ld, \"first\": %s}\n", compared, outside, bad, bad ? first.c_str() : "null");
    return 0;
  }
  fprintf(stderr, "usage\n");
  return 2;
}

// asm_native.cpp -- replay / sweep for C05 and C17 against the REAL hexasm (Lexer, Parser, CodeGen).
//   replay <file.S>          assemble, then validate layout + references + listing against the emitted bytes
//   sweep <seed> <n> [big]   random programs (labels, DATA, immediates, relative/absolute references around the
//                            encoding-length boundaries); prints JSON with the first failing program
// Validation decodes the emitted image with the ISA's prefix rule (spec/isa.h), independently of the assembler.
#include <cstdio>
#include <cstdlib>
#include <cstdint>
#include <cstring>
#include <fstream>
#include <map>
#include <random>
#include <sstream>
#include <string>
#include <vector>
#include <unistd.h>
#include <signal.h>
#include "hexasm.hpp"
extern "C" {
#include "isa.h"
}
using namespace hexasm;

static std::string hexScratch(const char *leaf) { const char *b = getenv("HEX_SCRATCH"); return std::string(b && *b ? b : "/var/tmp") + "/" + leaf; } // scratch files live under out/<ID>/scratch (wiped with it)
struct Verdict { bool accepted; bool ok; std::string why; std::string error; int c05; /* 1 = reference/layout, 2 = listing only */ };

static bool isLabelTok(Token t) { return t == Token::IDENTIFIER || t == Token::FUNC || t == Token::PROC; }

static std::string jsonEscape(const std::string &s) { std::string r; for (char c : s) { if (c == '"' || c == '\\') { r += '\\'; r += c; } else if (c == '\n') r += "\\n"; else r += c; } return r; }

// parse the listing produced by emitProgramText into (offset, text, size) triples
struct Line { unsigned long off; std::string text; long size; };
static std::vector<Line> parseListing(const std::string &txt) {
  std::vector<Line> v; std::istringstream in(txt); std::string l;
  while (std::getline(in, l)) {
    size_t p = l.rfind(" ("); size_t q = l.rfind(" bytes)");
    if (p == std::string::npos || q == std::string::npos) continue;
    Line ln; ln.off = strtoul(l.c_str(), nullptr, 16); ln.size = atol(l.c_str() + p + 2);
    size_t sp = l.find(' '); std::string mid = l.substr(sp + 1, p - sp - 1); while (!mid.empty() && mid.back() == ' ') mid.pop_back(); ln.text = mid;
    v.push_back(ln);
  }
  return v;
}

// Independent reference layout, used ONLY to classify rejections in this native search (is "not word aligned" justified?):
// least fixed point of grow-only encoding lengths, lengths judged by the ISA prefix rule (n bytes carry 4n operand bits,
// negative operands need the NFIX byte).  Returns true iff some absolute reference's label is off a word boundary.
static bool fitsBytes(long v, int n) { if (v >= 0) return n >= 8 || v < (1L << (4 * n)); return n >= 2 && (n >= 8 || v >= -(1L << (4 * n))); }
static bool referenceHasUnalignedAbsolute(const std::string &source, bool &ok) {
  ok = false;
  std::vector<std::unique_ptr<Directive>> prog;
  try { Lexer lx; Parser ps(lx); lx.loadBuffer(source); prog = ps.parseProgram(); } catch (std::exception &) { return false; }
  size_t n = prog.size(); std::vector<long> off(n, 0), len(n, 1), lab(n, 0); std::map<std::string, size_t> decl;
  for (size_t i = 0; i < n; i++) if (isLabelTok(prog[i]->getToken())) decl[dynamic_cast<Label *>(prog[i].get())->getLabel()] = i;
  for (size_t i = 0; i < n; i++) if (prog[i]->operandIsLabel() && !decl.count(dynamic_cast<InstrLabel *>(prog[i].get())->getLabel())) return false;
  for (int pass = 0; pass < 10000; pass++) {
    long o = 0; bool moved = false;
    for (size_t i = 0; i < n; i++) {
      Token t = prog[i]->getToken();
      if (t == Token::DATA) o = (o + 3) & ~3L;
      off[i] = o;
      if (isLabelTok(t)) { if (lab[i] != o) moved = true; lab[i] = o; }
      else if (prog[i]->operandIsLabel()) {
        auto *r = dynamic_cast<InstrLabel *>(prog[i].get()); long target = lab[decl[r->getLabel()]];
        if (pass > 0) { if (r->isRelative()) { while (!fitsBytes(target - o - len[i], (int)len[i])) len[i]++; } else { while (!fitsBytes(target >> 2, (int)len[i])) len[i]++; } }
        o += len[i];
      } else o += (long)prog[i]->getSize();
    }
    if (!moved && pass > 0) { ok = true; break; }
  }
  if (!ok) return false;
  for (size_t i = 0; i < n; i++) if (prog[i]->operandIsLabel()) { auto *r = dynamic_cast<InstrLabel *>(prog[i].get()); if (!r->isRelative() && (lab[decl[r->getLabel()]] & 3)) return true; }
  return false;
}

static Verdict validate(const std::string &source) {
  Verdict v{false, true, "", "", 0};
  std::vector<std::unique_ptr<Directive>> program;
  std::string img, listing;
  size_t headerWords = 0;
  try {
    Lexer lexer; Parser parser(lexer);
    lexer.loadBuffer(source);
    program = parser.parseProgram();
    CodeGen codeGen(program);
    std::ostringstream bin; codeGen.emitProgramBin(bin); img = bin.str();
    std::ostringstream txt; codeGen.emitProgramText(txt); listing = txt.str();
    std::string fnS = hexScratch("hexasm_hdr.XXXXXX"); char *fn = &fnS[0]; int fd = mkstemp(fn); close(fd);
    codeGen.emitBin(fn);
    std::ifstream f(fn, std::ios::binary); uint32_t w = 0; f.read(reinterpret_cast<char *>(&w), 4); headerWords = w; f.close(); unlink(fn);
  } catch (std::exception &e) {
    v.accepted = false; v.error = e.what();
    if (v.error.find("not word aligned") != std::string::npos) {
      bool refOk = false; bool justified = referenceHasUnalignedAbsolute(source, refOk);
      if (refOk && !justified) { v.ok = false; v.c05 = 1; v.why = "program rejected as 'not word aligned' although every absolutely referenced label is word aligned in the (least fixed point) layout"; }
    }
    return v;
  }
  v.accepted = true;
  auto fail = [&](int cls, const std::string &w) { if (v.ok) { v.ok = false; v.why = w; v.c05 = cls; } };
  // label name -> last declaring directive (std::map semantics of createLabelMap)
  std::map<std::string, Label *> labels;
  for (auto &d : program) if (isLabelTok(d->getToken())) { auto *l = dynamic_cast<Label *>(d.get()); labels[l->getLabel()] = l; }
  std::vector<Line> lines = parseListing(listing);
  if (lines.size() != program.size()) fail(2, "listing has " + std::to_string(lines.size()) + " lines for " + std::to_string(program.size()) + " directives");
  size_t off = 0;
  for (size_t i = 0; i < program.size(); i++) {
    Directive *d = program[i].get(); Token t = d->getToken();
    std::string at = " (directive " + std::to_string(i) + " '" + d->toString() + "')";
    if (t == Token::DATA) { while (off & 3) { if (off >= img.size() || img[off] != 0) fail(1, "non-zero alignment byte before DATA" + at); off++; } }
    size_t size = d->getSize();
    if (t != Token::PADDING) {
      if (d->getByteOffset() != off) fail(1, "directive offset " + std::to_string(d->getByteOffset()) + " but its bytes start at " + std::to_string(off) + at);
      if (i < lines.size() && lines[i].off != off) fail(2, "listing shows offset " + std::to_string(lines[i].off) + " but encoding starts at " + std::to_string(off) + at);
    }
    if (i < lines.size() && (size_t)lines[i].size != size) fail(2, "listing size column differs from directive size" + at);
    if (off + size > img.size()) { fail(1, "image shorter than layout" + at); break; }
    const uint8_t *b = reinterpret_cast<const uint8_t *>(img.data()) + off;
    if (isLabelTok(t)) {
      auto *l = dynamic_cast<Label *>(d);
      if ((size_t)l->getValue() != off) fail(1, "label value " + std::to_string(l->getValue()) + " is not its position " + std::to_string(off) + at);
      if (size != 0) fail(1, "label with non-zero size" + at);
    } else if (t == Token::DATA) {
      if (off & 3) fail(1, "DATA not word aligned" + at);
      uint32_t w; memcpy(&w, b, 4); if (size != 4 || w != (uint32_t)d->getValue()) fail(1, "DATA word differs" + at);
      if (i < lines.size() && lines[i].text != "DATA " + std::to_string((int32_t)w)) fail(2, "listing shows '" + lines[i].text + "' for the DATA word " + std::to_string((int32_t)w) + at);
    } else if (t == Token::PADDING) {
      for (size_t q = 0; q < size; q++) if (b[q] != 0) fail(1, "non-zero padding" + at);
    } else {
      unsigned opc = 0; uint32_t operand = 0;
      if (size < 1 || size > 8 || !isa_decode_prefix(b, size, &opc, &operand)) fail(1, "bytes are not PFIX/NFIX* + instruction" + at);
      else {
        unsigned want = (t == Token::OPR) ? 0xD : (unsigned)tokenToInstrOpc(t);
        if (opc != want) fail(1, "opcode differs" + at);
        if (operand != (uint32_t)d->getValue()) fail(1, "encoded operand " + std::to_string((int)operand) + " differs from directive value " + std::to_string(d->getValue()) + at);
        if (d->operandIsLabel()) {
          auto *r = dynamic_cast<InstrLabel *>(d);
          auto it = labels.find(r->getLabel());
          if (it == labels.end()) fail(1, "reference to undeclared label accepted" + at);
          else {
            long target = it->second->getValue();
            // the addressing form is the property's (by mnemonic), not whatever the directive object says about itself
            bool relByMnemonic = t == Token::BR || t == Token::BRZ || t == Token::BRN || t == Token::LDAP || t == Token::LDAI || t == Token::LDBI || t == Token::STAI;
            if (relByMnemonic) { long reach = (long)off + (long)size + (long)(int32_t)operand; if (reach != target) fail(1, "relative reference reaches " + std::to_string(reach) + ", label is at " + std::to_string(target) + at); }
            else { if (target & 3) fail(1, "absolute reference to unaligned label accepted" + at); else if ((long)(int32_t)operand != (target >> 2)) fail(1, "absolute reference encodes " + std::to_string((int)operand) + ", label word address is " + std::to_string(target >> 2) + at); }
            // listing shows the operand in parentheses
            if (i < lines.size()) { std::string want2 = "(" + std::to_string((int)operand) + ")"; if (lines[i].text.find(want2) == std::string::npos) fail(2, "listing operand differs from encoded operand" + at); }
          }
        }
      }
    }
    off += size;
  }
  if (off != img.size()) fail(1, "image has " + std::to_string(img.size()) + " bytes, layout " + std::to_string(off));
  if (img.size() % 4 != 0 || headerWords * 4 != img.size()) fail(1, "header length word " + std::to_string(headerWords) + " != image size/4 (" + std::to_string(img.size()) + " bytes)");
  return v;
}

// watchdog: "assembly terminates" -- a program the assembler is still working on after 20 s is reported as failing
static std::string g_current; static long g_done = 0;
static void onAlarm(int) {
  std::string esc = jsonEscape(g_current);
  printf("{\"programs\": %ld, \"accepted\": 0, \"rejected\": 0, \"bad_layout_or_reference\": 1, \"bad_listing_only\": 0, \"why_c05\": \"assembler did not terminate within 20 s\", \"first_c05\": \"%s\", \"why_c17\": \"\", \"first_c17\": \"\"}\n", g_done, esc.c_str());
  fflush(stdout); _exit(0);
}

static const char *REL[] = {"BR", "BRZ", "BRN", "LDAP", "LDAI", "LDBI", "STAI"};
static const char *ABS[] = {"LDAM", "LDBM", "STAM", "LDAC", "LDBC"};

static std::string genProgram(std::mt19937_64 &rng, bool big) {
  std::ostringstream o;
  int nl = 1 + rng() % 6;
  int blocks = 2 + rng() % (big ? 14 : 8);
  static const int gaps[] = {0, 1, 2, 3, 5, 12, 13, 14, 15, 16, 17, 18, 30, 250, 253, 254, 255, 256, 257, 258, 4090, 4093, 4094, 4095, 4096, 4097};
  int declared = 0;
  for (int b = 0; b < blocks; b++) {
    int kind = rng() % 8;
    if (kind <= 2) { int g = gaps[rng() % (big ? 26 : 20)]; if (rng() % 3 == 0) g = rng() % 40; for (int i = 0; i < g; i++) o << "LDAC 0\n"; }
    else if (kind == 3) { o << "L" << (rng() % nl) << "\n"; declared++; }
    else if (kind == 4) {
      static const char *BIG[] = {"-2147483648", "2147483647", "-1000000000", "-999999999", "3000000000", "4294967295", "1000000000", "-2147483647"};
      o << "L" << (rng() % nl) << "\nDATA "; if (rng() % 4 == 0) o << BIG[rng() % 8]; else o << (int)(rng() % 1000) - 500; o << "\n"; declared++; }
    else if (kind == 5) { o << REL[rng() % 7] << " L" << (rng() % nl) << "\n"; }
    else if (kind == 6) { o << ABS[rng() % 5] << " L" << (rng() % nl) << "\n"; }
    else if (kind == 7 && rng() % 2) {   // forward absolute reference; the label's alignment depends on how the branch in between grows
      int l = rng() % nl; o << ABS[rng() % 5] << " L" << l << "\n" << REL[rng() % 3] << " L" << (rng() % nl) << "\n";
      int g = rng() % 4; for (int i = 0; i < g; i++) o << "LDAC 0\n"; }
    else { o << "LDAC " << (int)(rng() % 100000) - 50000 << "\nOPR ADD\n"; }
  }
  for (int l = 0; l < nl; l++) { if (rng() % 2) o << "DATA 1\n"; o << "L" << l << "\n"; if (rng() % 2) o << "DATA " << l << "\n"; }  // every label declared at least once
  return o.str();
}

// ---- directed reference distances -------------------------------------------------------------------------------------
// F bytes of filler that contains no label and no DATA: 8-byte instructions (LDAC 2147483647) and 1-byte ones (LDAC 0)
static void filler(std::ostringstream &o, long F) { for (long i = 0; i < F / 8; i++) o << "LDAC 2147483647\n"; for (long i = 0; i < F % 8; i++) o << "LDAC 0\n"; }
static int minLen(long v) { if (v >= 0) { int n = 1; while (n < 8 && (v >> (4 * n)) != 0) n++; return n; } int n = 2; while (n < 8 && (v >> (4 * n)) != -1) n++; return n; }
// relative reference with operand D: forward: `tok L; <D bytes>; L`, backward: `L; <|D|-len bytes>; tok L` (len = encoding length slack)
static std::string relProgram(const char *tok, long D, int slack) {
  std::ostringstream o;
  if (D >= 0) { o << tok << " L\n"; filler(o, D); o << "L\nLDAC 0\n"; }
  else { long F = -D - (minLen(D) + slack); if (F < 0) F = 0; o << "L\n"; filler(o, F); o << tok << " L\nLDAC 0\n"; }
  return o.str();
}
// absolute reference with operand W (the label's word address): `tok L; <filler to byte 4W>; L; DATA 7`
static std::string absProgram(const char *tok, long W, int slack) {
  std::ostringstream o; o << tok << " L\n"; long F = 4 * W - (minLen(W) + slack); if (F < 0) F = 0; filler(o, F); o << "L\nDATA 7\n"; return o.str();
}
// chain of forward references in which growth propagates backwards one reference per layout pass (n + 2 passes):
//   R1 [7] R2 [7] L1 R3 [7] L2 ... Rn [7] L(n-1) [9] Ln      Ri = `tok Li`, [k] = k one-byte instructions
// with one-byte references Ri..Li spans 15 bytes, except Rn..Ln which spans 16
static std::string chainProgram(const char *tok, int n) {
  std::ostringstream o; auto fill = [&](int k) { for (int i = 0; i < k; i++) o << "LDBC 0\n"; };
  o << tok << " L1\n"; fill(7); o << tok << " L2\n"; fill(7);
  for (int i = 3; i <= n; i++) { o << "L" << (i - 2) << "\n" << tok << " L" << i << "\n"; fill(7); }
  o << "L" << (n - 1) << "\n"; fill(9); o << "L" << n << "\nLDAC 0\n";
  return o.str();
}
static std::vector<long> directedValues(long limit) {
  std::vector<long> v;
  for (int k = 0; k <= 5; k++) for (long m = 1; m <= 15; m++) for (long d = -2; d <= 2; d++) { long x = m * (1L << (4 * k)) + d; if (x >= 0 && x <= limit) v.push_back(x); }
  return v;
}

int main(int argc, char **argv) {
  // distances <limit>: every relative operand +-(m*16^k + {-2..2}) and absolute operand m*16^k + {-2..2} up to <limit>
  // distance <D> : the relative programs for operand D only (replay of a verifier counterexample on numNibbles/instrLen)
  if (argc >= 3 && (!strcmp(argv[1], "distances") || !strcmp(argv[1], "distance"))) {
    signal(SIGALRM, onAlarm);
    bool one = !strcmp(argv[1], "distance");
    std::vector<long> vals; if (one) vals.push_back(labs(atol(argv[2]))); else vals = directedValues(atol(argv[2]));
    long progs = 0, bad5 = 0, bad17 = 0; std::string first5, first17, why5, why17; int rot = 0;
    auto run = [&](const std::string &src) {
      progs++; g_current = src; g_done = progs; alarm(60);
      Verdict v = validate(src); alarm(0);
      if (!v.accepted) { if (!v.ok) { if (!bad5) { first5 = src; why5 = v.why; } bad5++; } return; }
      if (!v.ok) { if (v.c05 == 1) { if (!bad5) { first5 = src; why5 = v.why; } bad5++; } else { if (!bad17) { first17 = src; why17 = v.why; } bad17++; } }
    };
    if (!one) for (int n : {3, 4, 5, 7, 8, 9, 10, 12, 16, 17, 25, 33, 40, 64, 100}) run(chainProgram(REL[n % 4], n));   // layouts needing n + 2 passes
    for (long x : vals) {
      const char *rt = REL[rot % 7], *at = ABS[rot % 5]; rot++;
      if (!one || atol(argv[2]) >= 0) run(relProgram(rt, x, 0));
      if (x > 0 && (!one || atol(argv[2]) < 0)) for (int s = 0; s <= 1; s++) run(relProgram(rt, -x, s));
      if (!one && x <= 199990) for (int s = 0; s <= 1; s++) run(absProgram(at, x, s));
    }
    printf("{\"programs\": %ld, \"bad_layout_or_reference\": %ld, \"bad_listing_only\": %ld, \"why_c05\": \"%s\", \"first_c05\": \"%s\", \"why_c17\": \"%s\", \"first_c17\": \"%s\"}\n",
           progs, bad5, bad17, jsonEscape(why5).c_str(), jsonEscape(bad5 && first5.size() < 4000000 ? first5 : std::string()).c_str(), jsonEscape(why17).c_str(), jsonEscape(bad17 ? first17 : std::string()).c_str());
    return 0;
  }
  // checklisting <listing.txt> <image file>: a reader's check of a listing (hexasm --instrs / xcmp -S) against the binary,
  // from the two files alone: every line's bytes start at the listed offset, are as many as listed, and decode (ISA prefix
  // rule) to the listed mnemonic and operand / DATA value; label lines sit at their offset; nothing but zeros in between
  // and after; label operands "(v)" show the encoded value; a relative label operand reaches the line that declares the label
  if (argc >= 4 && !strcmp(argv[1], "checklisting")) {
    std::ifstream lf(argv[2]); std::stringstream ls; ls << lf.rdbuf();
    std::ifstream bf(argv[3], std::ios::binary); std::string raw((std::istreambuf_iterator<char>(bf)), std::istreambuf_iterator<char>());
    std::string why; uint32_t words = 0; if (raw.size() >= 4) memcpy(&words, raw.data(), 4);
    if (raw.size() < 4 || raw.size() < 4 + 4 * (size_t)words) why = "binary shorter than its header announces";
    std::string img = why.empty() ? raw.substr(4, 4 * (size_t)words) : std::string();
    std::vector<Line> lines = parseListing(ls.str());
    std::map<std::string, unsigned long> labelAt;
    for (auto &l : lines) { if (l.size == 0) { std::string n = l.text; if (n.compare(0, 5, "FUNC ") == 0 || n.compare(0, 5, "PROC ") == 0) n = n.substr(5); labelAt[n] = l.off; } }
    static const char *MN[16] = {"LDAM", "LDBM", "STAM", "LDAC", "LDBC", "LDAP", "LDAI", "LDBI", "STAI", "BR", "BRZ", "BRN", "?", "OPR", "PFIX", "NFIX"};
    static const char *OP[4] = {"BRB", "ADD", "SUB", "SVC"};
    size_t pos = 0, checked = 0;
    for (auto &l : lines) {
      if (!why.empty()) break;
      std::string at = " (line '" + l.text + "' at offset " + std::to_string(l.off) + ")";
      if (l.text.compare(0, 7, "PADDING") == 0) continue;   // trailing padding: covered by the "zeros after the last item" check (its offset column is not set by the layout)
      if (l.size == 0) { if (l.off < pos) why = "label listed before the end of the previous item" + at; continue; }
      if (l.off < pos) { why = "listed offset lies before the end of the previous item" + at; break; }
      for (size_t q = pos; q < l.off && q < img.size(); q++) if (img[q] != 0) { why = "non-zero byte between listed items at offset " + std::to_string(q); break; }
      if (!why.empty()) break;
      if (l.off + l.size > img.size()) { why = "listed item lies outside the image" + at; break; }
      const uint8_t *b = reinterpret_cast<const uint8_t *>(img.data()) + l.off;
      std::istringstream ts(l.text); std::string mn, opnd, paren; ts >> mn >> opnd >> paren;
      if (mn == "DATA") {
        uint32_t w; memcpy(&w, b, 4);
        if (l.size != 4 || (l.off & 3) || w != (uint32_t)strtoll(opnd.c_str(), 0, 10)) why = "DATA word in the image differs from the listing" + at;
      } else {
        unsigned opc = 0; uint32_t operand = 0;
        if (l.size < 1 || l.size > 8 || !isa_decode_prefix(b, l.size, &opc, &operand)) why = "bytes at the listed offset are not PFIX/NFIX* + instruction" + at;
        else if (mn != MN[opc & 15]) why = std::string("image holds ") + MN[opc & 15] + " where the listing says " + mn + at;
        else if (mn == "OPR") { if (operand > 3 || opnd != OP[operand]) why = "OPR operand differs" + at; }
        else if (!paren.empty()) {   // label operand: "name (value)"
          long shown = strtol(paren.c_str() + 1, 0, 10);
          if ((uint32_t)shown != operand) why = "listing shows operand " + std::to_string(shown) + ", image encodes " + std::to_string((int32_t)operand) + at;
          else if (labelAt.count(opnd)) {
            bool rel = mn == "BR" || mn == "BRZ" || mn == "BRN" || mn == "LDAP" || mn == "LDAI" || mn == "LDBI" || mn == "STAI";
            long target = (long)labelAt[opnd];
            if (rel ? ((long)l.off + l.size + (long)(int32_t)operand != target) : ((long)(int32_t)operand * 4 != target)) why = "label operand does not refer to the listed position of " + opnd + at;
          }
        } else if ((uint32_t)strtoll(opnd.c_str(), 0, 10) != operand) why = "listing shows operand " + opnd + ", image encodes " + std::to_string((int32_t)operand) + at;
      }
      pos = l.off + l.size; checked++;
    }
    for (size_t q = pos; why.empty() && q < img.size(); q++) if (img[q] != 0) why = "non-zero byte after the last listed item at offset " + std::to_string(q);
    printf("{\"ok\": %s, \"lines\": %zu, \"items_checked\": %zu, \"why\": \"%s\"}\n", why.empty() ? "true" : "false", lines.size(), checked, jsonEscape(why).c_str());
    return why.empty() ? 0 : 1;
  }
  // emit <file.S> <out.bin> <out.lst>: image and listing through the in-process pipeline (loadBuffer), for comparison with
  // what the hexasm executable (hexasm.cpp: openFile, argument handling, emitBin / emitProgramText) produces for the same file
  if (argc >= 5 && !strcmp(argv[1], "emit")) {
    std::ifstream f(argv[2]); std::stringstream ss; ss << f.rdbuf();
    try {
      Lexer lexer; Parser parser(lexer); lexer.loadBuffer(ss.str());
      auto program = parser.parseProgram();
      CodeGen codeGen(program);
      codeGen.emitBin(argv[3]);
      std::ofstream l(argv[4]); codeGen.emitProgramText(l);
    } catch (std::exception &e) { printf("{\"ok\": false, \"error\": \"%s\"}\n", jsonEscape(e.what()).c_str()); return 1; }
    printf("{\"ok\": true}\n"); return 0;
  }
  if (argc >= 3 && !strcmp(argv[1], "replay")) {
    std::ifstream f(argv[2]); std::stringstream ss; ss << f.rdbuf();
    Verdict v = validate(ss.str());
    printf("{\"accepted\": %s, \"ok\": %s, \"class\": %d, \"why\": \"%s\", \"error\": \"%s\"}\n", v.accepted ? "true" : "false", v.ok ? "true" : "false", v.c05, jsonEscape(v.why).c_str(), jsonEscape(v.error).c_str());
    return v.ok ? 0 : 1;
  }
  if (argc >= 4 && !strcmp(argv[1], "sweep")) {
    std::mt19937_64 rng(strtoull(argv[2], 0, 10)); long n = atol(argv[3]); bool big = argc > 4;
    signal(SIGALRM, onAlarm);
    long accepted = 0, rejected = 0, bad5 = 0, bad17 = 0; std::string first5, first17, why5, why17;
    for (long it = 0; it < n; it++) {
      std::string src = genProgram(rng, big);
      g_current = src; g_done = it; alarm(20);
      Verdict v = validate(src);
      alarm(0);
      if (!v.accepted) { rejected++; if (!v.ok) { if (!bad5) { first5 = src; why5 = v.why; } bad5++; } continue; }
      accepted++;
      if (!v.ok) { if (v.c05 == 1) { if (!bad5) { first5 = src; why5 = v.why; } bad5++; } else { if (!bad17) { first17 = src; why17 = v.why; } bad17++; } }
    }
    printf("{\"programs\": %ld, \"accepted\": %ld, \"rejected\": %ld, \"bad_layout_or_reference\": %ld, \"bad_listing_only\": %ld, \"why_c05\": \"%s\", \"first_c05\": \"%s\", \"why_c17\": \"%s\", \"first_c17\": \"%s\"}\n",
           n, accepted, rejected, bad5, bad17, jsonEscape(why5).c_str(), jsonEscape(first5).c_str(), jsonEscape(why17).c_str(), jsonEscape(first17).c_str());
    return 0;
  }
  fprintf(stderr, "usage\n"); return 2;
}

// c15_native.cpp -- native stage for C15: real hexasm (text -> binary with symbol table) -> real hexsim with tracing on.
// Every trace line is checked against an independent ISA run (spec/isa.h) of the same image and against the symbol
// table: count, byte address, symbol (the last FUNC/PROC at or below the address), offset, mnemonic, operand nibble.
//   usage: c15_native <seed> <n-programs>
#include <cstdlib>
#include <algorithm>
#include <cstdio>
#include <cstdint>
#include <cstring>
#include <fstream>
#include <map>
#include <random>
#include <sstream>
#include <string>
#include <vector>
#include <unistd.h>
#include "hexasm.hpp"
#include "hexsim.hpp"
extern "C" {
#include "isa.h"
}
struct HexVerifAccess {};
static const char *MN[16] = {"LDAM", "LDBM", "STAM", "LDAC", "LDBC", "LDAP", "LDAI", "LDBI", "STAI", "BR", "BRZ", "BRN", "?", "OPR", "PFIX", "NFIX"};

static std::string gen(std::mt19937_64 &rng, int &nprocs) {
  // prologue: BR start; DATA sp ; procedures p0..pk (FUNC/PROC) each a few instructions ending in a return via BRB;
  // main calls them in a random order, then exits 0.
  std::ostringstream o;
  nprocs = 1 + rng() % 5;
  // names whose alphabetical order is unrelated to the layout order (a table keyed or sorted by name must not pass)
  static const char *POOL[] = {"zeta", "alpha", "mid", "p10", "accumulate_first_total", "Beta9", "kilo", "a", "a_rather_long_procedure_name", "main_"};
  std::vector<std::string> name; { std::vector<int> perm(10); for (int i = 0; i < 10; i++) perm[i] = i; for (int i = 9; i > 0; i--) std::swap(perm[i], perm[rng() % (i + 1)]); for (int p = 0; p < nprocs; p++) name.push_back(POOL[perm[p]]); }
  o << "BR start\nDATA 1000\n";
  for (int p = 0; p < nprocs; p++) {
    o << ((rng() & 1) ? "FUNC" : "PROC") << " " << name[p] << "\n";
    int body = rng() % 6; for (int i = 0; i < body; i++) o << "LDAC " << (rng() % 300) << "\n";
    if (rng() % 3 == 0) for (int i = 0; i < (int)(rng() % 20); i++) o << "LDAC 0\n";
    if (rng() % 6 == 0) for (int i = 0; i < 1100; i++) o << "LDAC 0\n";   // offsets with three and four digits
    // return: pc = breg -- or fall through into the next procedure (its entry is then reached from the instruction
    // directly before it, the adjacent-procedure case)
    if (p == nprocs - 1 || rng() % 3 != 0) o << "OPR BRB\n";
  }
  o << "start\n";
  int calls = 1 + rng() % 6;
  for (int c = 0; c < calls; c++) { int p = rng() % nprocs; o << "LDAP ret" << c << "\nLDBC 0\nOPR ADD\nLDBC 0\n" << "LDAP ret" << c << "\n"; 
    // breg <- return address: LDAP into areg, move to breg via store/load on the stack word
    o << "LDBM 1\nSTAI 5\nLDBM 1\nLDBI 5\nBR " << name[p] << "\nret" << c << "\n"; }
  // the program prints digits on the console while it is traced (its output shares the stream with the trace): the
  // leading columns of the lines that follow must still be the count and the address
  for (int w = 0; w < 2; w++) o << "LDBM 1\nLDAC " << (55 - 4 * w) << "\nSTAI 2\nLDAC 0\nSTAI 3\nLDAC 1\nOPR SVC\nLDAC 0\n";
  o << "LDBM 1\nLDAC 0\nSTAI 2\nLDAC 0\nOPR SVC\n";
  return o.str();
}

static std::string hexScratch(const char *leaf) { const char *b = getenv("HEX_SCRATCH"); return std::string(b && *b ? b : "/var/tmp") + "/" + leaf; } // scratch files live under out/<ID>/scratch (wiped with it)
int main(int argc, char **argv) {
  std::mt19937_64 rng(argc > 1 ? strtoull(argv[1], 0, 10) : 1); long n = argc > 2 ? atol(argv[2]) : 50;
  long bad = 0, lines = 0, progs = 0; std::string why, firstProg;
  std::string fnS = hexScratch("hexc15.XXXXXX"); char *fn = &fnS[0]; int fd = mkstemp(fn); close(fd);
  for (long it = 0; it < n; it++) {
    int nprocs; std::string src = gen(rng, nprocs);
    std::vector<std::pair<std::string, unsigned>> syms;   // expected: FUNC/PROC in source order with the address of the next emitted byte
    std::string problem;
    try {
      hexasm::Lexer lexer; hexasm::Parser parser(lexer); lexer.loadBuffer(src);
      auto program = parser.parseProgram();
      hexasm::CodeGen cg(program);
      for (auto &d : program) if (d->getToken() == hexasm::Token::FUNC || d->getToken() == hexasm::Token::PROC) syms.push_back({dynamic_cast<hexasm::Label *>(d.get())->getLabel(), d->getByteOffset()});
      cg.emitBin(fn);
    } catch (std::exception &e) { problem = std::string("assembler rejected generated program: ") + e.what(); }
    if (problem.empty()) {
      progs++;
      std::istringstream in; std::ostringstream out;
      std::unique_ptr<hexsim::Processor> p(new hexsim::Processor(in, out, 20000));
      p->setTracing(true); p->load(fn);
      try { p->run(); } catch (std::exception &e) { problem = std::string("simulator error: ") + e.what(); }
      // reference run
      std::ifstream f(fn, std::ios::binary); uint32_t words = 0; f.read(reinterpret_cast<char *>(&words), 4);
      std::vector<uint32_t> mem(ISA_MEM_WORDS, 0); f.read(reinterpret_cast<char *>(mem.data()), words * 4);
      isa_state s{0, 0, 0, 0, true, 0};
      std::istringstream tl(out.str()); std::string line; size_t count = 0;
      while (problem.empty() && s.running && std::getline(tl, line)) {
        if (line.compare(0, 5, "exit ") == 0 || line.compare(0, 6, "write ") == 0 || line.compare(0, 5, "read ") == 0) continue;
        std::istringstream ls(line); size_t c; uint32_t addr; std::string a, b, cc;
        ls >> c >> addr >> a;
        std::string sym, mnem; int opnd = -1;
        // the symbol column is empty (spaces) below the first symbol: then `a` is the mnemonic
        bool hasSym = a.find('+') != std::string::npos;
        if (hasSym) { sym = a; ls >> mnem >> opnd; } else { mnem = a; ls >> opnd; }
        uint32_t byte = (mem[s.pc >> 2] >> ((s.pc & 3) << 3)) & 0xFF;
        lines++;
        if (c != count) problem = "count column " + std::to_string(c) + " != instructions executed " + std::to_string(count);
        else if (addr != s.pc) problem = "address column " + std::to_string(addr) + " != pc " + std::to_string(s.pc);
        else if (mnem != MN[byte >> 4]) problem = "mnemonic column " + mnem + " != " + MN[byte >> 4];
        else if (opnd != (int)(byte & 0xF)) problem = "operand column";
        else {
          // expected symbol: last entry with offset <= pc
          int idx = -1; for (size_t k = 0; k < syms.size(); k++) if (syms[k].second <= s.pc) idx = (int)k;
          std::string want = idx < 0 ? "" : syms[idx].first + "+" + std::to_string(s.pc - syms[idx].second);
          if (sym != want) problem = "symbol column '" + sym + "' != '" + want + "' at pc " + std::to_string(s.pc);
        }
        isa_write w; isa_event ev; isa_status st; isa_step(&s, mem.data(), -1, &w, &ev, &st);
        if (w.wr) mem[w.waddr] = w.wdata;
        if (!st.defined || !st.in_range) break;
        count++;
      }
    }
    if (!problem.empty()) { if (!bad) { why = problem; firstProg = src; } bad++; }
  }
  unlink(fn);
  std::string esc; for (char c : firstProg) { if (c == '\n') esc += "\\n"; else if (c == '"') esc += "\\\""; else esc += c; }
  std::string w2; for (char c : why) { if (c == '"' || c == '\\') w2 += '\\'; w2 += c; }
  printf("{\"programs\": %ld, \"trace_lines_checked\": %ld, \"bad\": %ld, \"why\": \"%s\", \"first_program\": \"%s\"}\n", progs, lines, bad, w2.c_str(), esc.c_str());
  return 0;
}

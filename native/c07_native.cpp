// c07_native.cpp -- native replay for C07: the REAL xcmp::Driver compiles two X sources (constants folded at compile time
// vs the same values held in variables), the REAL hexsim::Processor runs both; exit values must agree.
//   ops   <literal source> <variable source> <word a> <value a> [<word b> <value b>]
//   shape <literal source> <variable source> <v> <c1> [<c2>]      (variables v,x,y are the globals lab0..lab2)
#include <cstdio>
#include <cstdint>
#include <cstring>
#include <fstream>
#include <sstream>
#include <string>
#include <vector>
#include <regex>
#include "hexasm.hpp"
#include "xcmp.hpp"
#include "hexsim.hpp"
struct HexVerifAccess { static uint32_t *memory(hexsim::Processor &p) { return p.memory.data(); } };

static int runSrc(const std::string &src, const std::vector<std::pair<int, uint32_t>> &plant, bool byLabel, std::string &err) {
  try {
    xcmp::Driver drv(std::cout);
    if (drv.runCatchExceptions(xcmp::DriverAction::EMIT_BINARY, src, false, "c07_replay.bin") != 0) { err = "compile error"; return -1; }
    std::vector<int> words;
    if (byLabel) {
      std::ostringstream lst; xcmp::Driver d2(lst);
      d2.runCatchExceptions(xcmp::DriverAction::EMIT_ASM, src, false);
      std::istringstream in(lst.str()); std::string l; std::regex re("^(0x[0-9a-f]+|0+)\\s+lab(\\d+)\\s+\\(0 bytes\\)");
      std::vector<int> byIdx(8, -1);
      while (std::getline(in, l)) { std::smatch m; if (std::regex_search(l, m, re)) { int idx = std::stoi(m[2]); if (idx < 8) byIdx[idx] = (int)(std::stoul(m[1], nullptr, 16) / 4); } }
      words = byIdx;
    }
    std::istringstream in; std::ostringstream out;
    std::unique_ptr<hexsim::Processor> p(new hexsim::Processor(in, out, 100000));
    p->load("c07_replay.bin");
    for (size_t i = 0; i < plant.size(); i++) {
      int w = byLabel ? words[plant[i].first] : plant[i].first;
      if (w < 0) { err = "variable not found in listing"; return -1; }
      HexVerifAccess::memory(*p)[w] = plant[i].second;
    }
    return p->run();
  } catch (std::exception &e) { err = e.what(); return -1; }
}
int main(int argc, char **argv) {
  if (argc >= 6 && !strcmp(argv[1], "ops")) {
    std::string e1, e2; std::vector<std::pair<int, uint32_t>> pl;
    pl.push_back({atoi(argv[4]), (uint32_t)atoll(argv[5])}); if (argc >= 8) pl.push_back({atoi(argv[6]), (uint32_t)atoll(argv[7])});
    int l = runSrc(argv[2], {}, false, e1), v = runSrc(argv[3], pl, false, e2);
    bool ok = e1.empty() && e2.empty() && l == v;
    printf("{\"ok\": %s, \"why\": \"constants folded: exit %d; values in variables: exit %d %s %s\"}\n", ok ? "true" : "false", l, v, e1.c_str(), e2.c_str());
    return ok ? 0 : 1;
  }
  if (argc >= 6 && !strcmp(argv[1], "shape")) {
    std::string e1, e2; uint32_t vv = (uint32_t)atoll(argv[4]);
    std::vector<std::pair<int, uint32_t>> pv; pv.push_back({0, vv}); for (int i = 5; i < argc; i++) pv.push_back({i - 4, (uint32_t)atoll(argv[i])});
    int l = runSrc(argv[2], {{0, vv}}, true, e1), v = runSrc(argv[3], pv, true, e2);
    bool ok = e1.empty() && e2.empty() && l == v;
    printf("{\"ok\": %s, \"why\": \"constants as literals: exit %d; same values in variables: exit %d %s %s\"}\n", ok ? "true" : "false", l, v, e1.c_str(), e2.c_str());
    return ok ? 0 : 1;
  }
  fprintf(stderr, "usage\n"); return 2;
}

// c16_native.cpp -- three natively Verilated models (processor.sv, verilog/processor.v, synth/processor.v) in lock-step.
//   replay <verilog|synth> pc areg breg oreg clk0 rst0 f0 d0 clk1 rst1 f1 d1
//   sweep <seed> <n>
#include <cstdio>
#include <cstdint>
#include <cstring>
#include <memory>
#include <random>
#include <string>
#include <verilated.h>
#include "Nsv.h"
#include "Nsv___024root.h"
#include "Nsv_processor.h"
#include "Nv.h"
#include "Nv___024root.h"
#include "Ns.h"
#include "Ns___024root.h"
double sc_time_stamp() { return 0; }

struct Vec { uint32_t pc, a, b, o; uint8_t clk0, rst0, f0; uint32_t d0; uint8_t clk1, rst1, f1; uint32_t d1; };
struct Obs { uint32_t pc, a, b, o, f_addr, d_addr, d_data; uint8_t f_valid, d_valid, d_we, sv, sc; };
static bool eq(const Obs &x, const Obs &y, std::string &why) {
#define C(f) if (x.f != y.f) { why = #f; return false; }
  C(pc) C(a) C(b) C(o) C(f_addr) C(d_addr) C(d_data) C(f_valid) C(d_valid) C(d_we) C(sv) C(sc)
#undef C
  return true;
}
template <class T> static void drive(T &t, uint8_t clk, uint8_t rst, uint8_t f, uint32_t d) { t.i_clk = clk; t.i_rst = rst; t.i_f_data = f; t.i_d_data = d; }
template <class T> static void outs(T &t, Obs &o) { o.f_addr = t.o_f_addr; o.d_addr = t.o_d_addr; o.d_data = t.o_d_data; o.f_valid = t.o_f_valid; o.d_valid = t.o_d_valid; o.d_we = t.o_d_we; o.sv = t.o_syscall_valid; o.sc = t.o_syscall; }

static Obs runSv(const Vec &v, Obs &settled) {
  VerilatedContext ctx; const char *av[] = {"x"}; ctx.commandArgs(1, av); ctx.randReset(0);
  Nsv t{&ctx, "TOP"};
  // reach the state (registers R, previous inputs = inputs0) without Verilator's time-zero evaluation in the way:
  // initialise at (0,0), move to inputs0, plant R, re-evaluate at inputs0 (no edge: only nets settle)
  drive(t, 0, 0, 0, 0); t.eval();
  drive(t, v.clk0, v.rst0, v.f0, v.d0); t.eval();
  auto *p = t.processor;
  p->pc_q = v.pc & 0x1FFFFF; p->areg_q = v.a; p->breg_q = v.b; p->oreg_q = v.o;
  t.eval();
  settled.pc = p->pc_q; settled.a = p->areg_q; settled.b = p->breg_q; settled.o = p->oreg_q; outs(t, settled);
  drive(t, v.clk1, v.rst1, v.f1, v.d1); t.eval();
  Obs r; r.pc = p->pc_q; r.a = p->areg_q; r.b = p->breg_q; r.o = p->oreg_q; outs(t, r); return r;
}
template <class T> static Obs runV(const Vec &v, Obs &settled) {
  VerilatedContext ctx; const char *av[] = {"x"}; ctx.commandArgs(1, av); ctx.randReset(0);
  T t{&ctx, "TOP"};
  drive(t, 0, 0, 0, 0); t.eval();
  drive(t, v.clk0, v.rst0, v.f0, v.d0); t.eval();
  auto *p = t.rootp;
  p->processor__DOT__pc_q = v.pc & 0x1FFFFF; p->processor__DOT__areg_q = v.a; p->processor__DOT__breg_q = v.b; p->processor__DOT__oreg_q = v.o;
  t.eval();
  settled.pc = p->processor__DOT__pc_q; settled.a = p->processor__DOT__areg_q; settled.b = p->processor__DOT__breg_q; settled.o = p->processor__DOT__oreg_q; outs(t, settled);
  drive(t, v.clk1, v.rst1, v.f1, v.d1); t.eval();
  Obs r; r.pc = p->processor__DOT__pc_q; r.a = p->processor__DOT__areg_q; r.b = p->processor__DOT__breg_q; r.o = p->processor__DOT__oreg_q; outs(t, r); return r;
}
static bool compare(const Vec &v, const char *which, std::string &why) {
  Obs s0, s1; Obs a = runSv(v, s0);
  Obs b = !strcmp(which, "synth") ? runV<Ns>(v, s1) : runV<Nv>(v, s1);
  std::string w;
  if (!eq(s0, s1, w)) { why = "after settling: " + w; return false; }
  if (!eq(a, b, w)) { why = "after the evaluation: " + w; return false; }
  return true;
}
static void printVec(const Vec &v) {
  printf("{\"pc\": %u, \"areg\": %u, \"breg\": %u, \"oreg\": %u, \"clk0\": %u, \"rst0\": %u, \"f0\": %u, \"d0\": %u, \"clk1\": %u, \"rst1\": %u, \"f1\": %u, \"d1\": %u}",
         v.pc, v.a, v.b, v.o, v.clk0, v.rst0, v.f0, v.d0, v.clk1, v.rst1, v.f1, v.d1);
}
int main(int argc, char **argv) {
  if (argc >= 15 && !strcmp(argv[1], "replay")) {
    Vec v{(uint32_t)strtoul(argv[3], 0, 0), (uint32_t)strtoul(argv[4], 0, 0), (uint32_t)strtoul(argv[5], 0, 0), (uint32_t)strtoul(argv[6], 0, 0),
          (uint8_t)atoi(argv[7]), (uint8_t)atoi(argv[8]), (uint8_t)atoi(argv[9]), (uint32_t)strtoul(argv[10], 0, 0),
          (uint8_t)atoi(argv[11]), (uint8_t)atoi(argv[12]), (uint8_t)atoi(argv[13]), (uint32_t)strtoul(argv[14], 0, 0)};
    std::string why; bool ok = compare(v, argv[2], why);
    printf("{\"ok\": %s, \"why\": \"%s\"}\n", ok ? "true" : "false", why.c_str());
    return ok ? 0 : 1;
  }
  if (argc >= 4 && !strcmp(argv[1], "sweep")) {
    std::mt19937_64 rng(strtoull(argv[2], 0, 10)); long n = atol(argv[3]);
    // persistent models stepped over random input sequences (state carried), plus planted corner states
    VerilatedContext ctx; const char *av[] = {"x"}; ctx.commandArgs(1, av); ctx.randReset(0);
    Nsv A{&ctx, "A"}; Nv B{&ctx, "B"}; Ns Cc{&ctx, "C"};
    long steps = 0, mism = 0; std::string why, which; Vec first{};
    uint8_t clk = 0, rst = 0, f = 0; uint32_t d = 0;
    drive(A, clk, rst, f, d); drive(B, clk, rst, f, d); drive(Cc, clk, rst, f, d); A.eval(); B.eval(); Cc.eval();
    auto corner = [&](uint64_t x) -> uint32_t { switch (x & 7) { case 0: return 0; case 1: return 0xFFFFFFFFu; case 2: return 0x80000000u; case 3: return 0x7FFFFFFFu; case 4: return 0x1FFFFFu; default: return (uint32_t)(x >> 8); } };
    for (long it = 0; it < n; it++) {
      uint64_t x = rng(), y = rng();
      if (it % 64 == 0) {  // plant a corner state in all three
        uint32_t pc = corner(x) & 0x1FFFFF, a = corner(x >> 16), b = corner(y), o = corner(y >> 16);
        A.processor->pc_q = pc; A.processor->areg_q = a; A.processor->breg_q = b; A.processor->oreg_q = o;
        B.rootp->processor__DOT__pc_q = pc; B.rootp->processor__DOT__areg_q = a; B.rootp->processor__DOT__breg_q = b; B.rootp->processor__DOT__oreg_q = o;
        Cc.rootp->processor__DOT__pc_q = pc; Cc.rootp->processor__DOT__areg_q = a; Cc.rootp->processor__DOT__breg_q = b; Cc.rootp->processor__DOT__oreg_q = o;
      }
      Vec v{A.processor->pc_q, A.processor->areg_q, A.processor->breg_q, A.processor->oreg_q, clk, rst, f, d, 0, 0, 0, 0};
      clk = (x >> 1) & 1; rst = ((x >> 2) & 15) == 0; f = (uint8_t)it; d = corner(y >> 7);
      v.clk1 = clk; v.rst1 = rst; v.f1 = f; v.d1 = d;
      drive(A, clk, rst, f, d); drive(B, clk, rst, f, d); drive(Cc, clk, rst, f, d); A.eval(); B.eval(); Cc.eval();
      steps++;
      Obs oa, ob, oc; oa.pc = A.processor->pc_q; oa.a = A.processor->areg_q; oa.b = A.processor->breg_q; oa.o = A.processor->oreg_q; outs(A, oa);
      ob.pc = B.rootp->processor__DOT__pc_q; ob.a = B.rootp->processor__DOT__areg_q; ob.b = B.rootp->processor__DOT__breg_q; ob.o = B.rootp->processor__DOT__oreg_q; outs(B, ob);
      oc.pc = Cc.rootp->processor__DOT__pc_q; oc.a = Cc.rootp->processor__DOT__areg_q; oc.b = Cc.rootp->processor__DOT__breg_q; oc.o = Cc.rootp->processor__DOT__oreg_q; outs(Cc, oc);
      std::string w;
      bool okB = eq(oa, ob, w); std::string wB = w; bool okC = eq(oa, oc, w);
      if (!okB || !okC) { if (!mism) { first = v; why = okB ? w : wB; which = okB ? "synth" : "verilog"; } mism++;
        // resynchronise
        B.rootp->processor__DOT__pc_q = oa.pc; B.rootp->processor__DOT__areg_q = oa.a; B.rootp->processor__DOT__breg_q = oa.b; B.rootp->processor__DOT__oreg_q = oa.o;
        Cc.rootp->processor__DOT__pc_q = oa.pc; Cc.rootp->processor__DOT__areg_q = oa.a; Cc.rootp->processor__DOT__breg_q = oa.b; Cc.rootp->processor__DOT__oreg_q = oa.o; }
    }
    printf("{\"steps\": %ld, \"mismatches\": %ld, \"first\": ", steps, mism);
    if (mism) { printf("{\"which\": \"%s\", \"why\": \"%s\", \"vector\": ", which.c_str(), why.c_str()); printVec(first); printf("}"); } else printf("null");
    printf("}\n");
    return 0;
  }
  fprintf(stderr, "usage\n"); return 2;
}

// c13_native.cpp -- native replay for C13: hextb.cpp's OWN load()/run() (linked in, main renamed) on the natively
// Verilated model, started from a planted power-on state.  The outcome (exit value, stdout, a ghost memory word)
// must equal that of the clean power-on state.
//   replay <pc> <areg> <breg> <oreg> <word at pc>>2> <k> <sp-unused>
//   sweep <seed> <n>
#undef main
#include <cstdio>
#include <cstdint>
#include <cstring>
#include <fstream>
#include <iostream>
#include <memory>
#include <random>
#include <sstream>
#include <string>
#include <vector>
#include <verilated.h>
#include "Vhex_pkg.h"
#include "Vhex_pkg_hex.h"
#include "Vhex_pkg_memory.h"
#include "Vhex_pkg_processor.h"

// hextb.cpp's functions
void load(const char *filename, const std::unique_ptr<Vhex_pkg> &top);
int run(const std::unique_ptr<VerilatedContext> &contextp, const std::unique_ptr<Vhex_pkg> &top, bool trace, size_t maxCycles);

// image: BR 7 | pad | DATA 16 (sp) | LDAC 7; LDBM 1; STAI 2; LDAC 0; OPR SVC    -> exit(7), no output
static const uint8_t IMG[] = {0x97, 0, 0, 0, 16, 0, 0, 0, 0x37, 0x11, 0x82, 0x30, 0xD3, 0, 0, 0};
static void writeImage(const char *fn) {
  std::ofstream f(fn, std::ios::binary); uint32_t words = sizeof(IMG) / 4;
  f.write(reinterpret_cast<const char *>(&words), 4); f.write(reinterpret_cast<const char *>(IMG), sizeof(IMG));
}
// second image: exits with the value of word k, which lies outside the image and is never written by the program:
// BR 7 | pad | DATA 16 (sp) | LDAM k (prefixed); LDBM 1; STAI 2; LDAC 0; OPR SVC
static void writeReaderImage(const char *fn, uint32_t k) {
  std::vector<uint8_t> b = {0x97, 0, 0, 0, 16, 0, 0, 0};
  int n = 1; while (n < 8 && (k >> (4 * n)) != 0) n++;
  for (int i = n - 1; i >= 1; i--) b.push_back(0xE0 | ((k >> (4 * i)) & 0xF));
  b.push_back(0x00 | (k & 0xF));
  for (uint8_t x : {0x11, 0x82, 0x30, 0xD3}) b.push_back(x);
  while (b.size() % 4) b.push_back(0);
  std::ofstream f(fn, std::ios::binary); uint32_t words = b.size() / 4;
  f.write(reinterpret_cast<const char *>(&words), 4); f.write(reinterpret_cast<const char *>(b.data()), b.size());
}
static const char *g_image = "c13_img.bin";
struct Planted { bool use; uint32_t pc, a, b, o, w0; int seed; };
struct Outcome { int exitCode; std::string out; bool threw; uint32_t memk; long consumed; };

static Outcome runOnce(const Planted &p, uint32_t k) {
  const std::unique_ptr<VerilatedContext> ctx{new VerilatedContext};
  const char *av[] = {"c13"}; ctx->commandArgs(1, av);
  ctx->randReset(p.seed < 0 ? 0 : 2); if (p.seed >= 0) ctx->randSeed(p.seed);
  const std::unique_ptr<Vhex_pkg> top{new Vhex_pkg{ctx.get(), "TOP"}};
  std::ostringstream cap; auto *old = std::cout.rdbuf(cap.rdbuf());
  std::istringstream input("xyz"); auto *oldin = std::cin.rdbuf(input.rdbuf()); std::cin.clear();
  Outcome oc{0, "", false, 0, 0};
  uint32_t before = 0;
  try {
    load(g_image, top);
    if (p.use) {
      auto *pr = top->hex->u_processor;
      pr->pc_q = p.pc & 0x1FFFFF; pr->__PVT__areg_q = p.a; pr->__PVT__breg_q = p.b; pr->__PVT__oreg_q = p.o;
      uint32_t wi = (p.pc & 0x1FFFFF) >> 2;
      if (wi >= 32) top->hex->u_memory->memory_q[wi] = p.w0;   // never overwrite the image or its stack words
    }
    before = top->hex->u_memory->memory_q[k];
    oc.exitCode = run(ctx, top, false, 100000);
  } catch (std::exception &e) { oc.threw = true; }
  std::cout.rdbuf(old); std::cin.rdbuf(oldin);
  input.clear(); { std::streampos pos = input.tellg(); oc.consumed = pos < 0 ? 3 : (long)pos; }
  oc.out = cap.str();
  size_t nl = oc.out.find('\n'); if (nl != std::string::npos) oc.out = oc.out.substr(nl + 1);  // drop load()'s banner
  oc.memk = top->hex->u_memory->memory_q[k] ^ before;   // 0 iff unchanged
  return oc;
}
static std::string differs(const Outcome &a, const Outcome &clean) {
  if (a.threw) return "error raised (invalid syscall)";
  if (a.exitCode != clean.exitCode) return "exit value " + std::to_string(a.exitCode) + " instead of " + std::to_string(clean.exitCode);
  if (a.out != clean.out) return "spurious output";
  if (a.memk != 0) return "memory word changed before execution started";
  if (a.consumed != clean.consumed) return "input consumed before execution started";
  return "";
}
int main(int argc, char **argv) {
  writeImage("c13_img.bin");
  Planted cleanP{false, 0, 0, 0, 0, 0, -1};
  if (argc >= 8 && !strcmp(argv[1], "replay")) {
    Planted p{true, (uint32_t)strtoul(argv[2], 0, 0), (uint32_t)strtoul(argv[3], 0, 0), (uint32_t)strtoul(argv[4], 0, 0), (uint32_t)strtoul(argv[5], 0, 0), (uint32_t)strtoul(argv[6], 0, 0), -1};
    uint32_t k = strtoul(argv[7], 0, 0); if (k < 32 || k >= 524288) k = 40;
    // the ghost word the verifier picked may be the target of the planted state's store: derive it from the instruction too
    uint32_t byte = (p.w0 >> ((p.pc & 3) << 3)) & 0xFF, opr = p.o | (byte & 0xF);
    if ((byte >> 4) == 2) k = opr & 0x7FFFF; if ((byte >> 4) == 8) k = (p.b + opr) & 0x7FFFF;
    if (k < 32) k = 40;
    Outcome clean = runOnce(cleanP, k), got = runOnce(p, k);
    std::string why = differs(got, clean);
    printf("{\"ok\": %s, \"why\": \"%s\", \"exit\": %d, \"clean_exit\": %d}\n", why.empty() ? "true" : "false", why.c_str(), got.exitCode, clean.exitCode);
    return why.empty() ? 0 : 1;
  }
  // readword <k>: a program that exits with the never-written word k, under several randomisation seeds vs the clean power-on state
  if (argc >= 3 && !strcmp(argv[1], "readword")) {
    uint32_t k = strtoul(argv[2], 0, 0); if (k < 6 || (k >= 16 && k < 20) || k >= 524288) k = 100;
    writeReaderImage("c13_reader.bin", k); g_image = "c13_reader.bin";
    Outcome clean = runOnce(cleanP, 40); std::string why; int badSeed = 0;
    for (int sd = 1; sd <= 6 && why.empty(); sd++) { Planted p{false, 0, 0, 0, 0, 0, sd * 7919}; Outcome got = runOnce(p, 40); why = differs(got, clean); badSeed = p.seed; }
    g_image = "c13_img.bin";
    printf("{\"ok\": %s, \"why\": \"%s\", \"program\": \"exit(word %u), word never written\", \"seed\": %d, \"clean_exit\": %d}\n", why.empty() ? "true" : "false", why.c_str(), k, badSeed, clean.exitCode);
    return why.empty() ? 0 : 1;
  }
  if (argc >= 4 && !strcmp(argv[1], "sweep")) {
    std::mt19937_64 rng(strtoull(argv[2], 0, 10)); long n = atol(argv[3]);
    long mism = 0; std::string why; Planted first{}; uint32_t firstReader = 0;
    for (long it = 0; it < n; it++) {
      Planted p{}; uint32_t k = 40 + (uint32_t)(rng() % 1000);
      if (it % 2 == 0) { p.use = false; p.seed = (int)(rng() & 0x7FFFFFFF); if (p.seed == 0) p.seed = 1; }
      else {
        p.use = true; p.seed = -1; uint64_t x = rng();
        p.pc = 4000 + (uint32_t)(x % 100000); p.a = (it % 3 == 0) ? (uint32_t)((x >> 20) % 3) : (uint32_t)(x >> 20); p.b = (uint32_t)(rng() % 1000); p.o = 0;
        static const uint8_t bytes[] = {0xD3, 0x28, 0x82, 0xD3, 0x21, 0xD3};
        uint8_t byte = bytes[it % 6];
        p.pc &= ~3u;                                   // two planted bytes: the instruction at pc and the one after it
        uint8_t next = (it % 4 < 2) ? 0xD3 : 0x30;     // ... which is an SVC in half of the cases
        p.w0 = (uint32_t)byte | ((uint32_t)next << 8);
        uint32_t opr = byte & 0xF; if ((byte >> 4) == 2) k = opr; if ((byte >> 4) == 8) k = p.b + opr; if (k < 32) k = 40;
      }
      bool reader = !p.use && (it % 4 == 0);      // seeded power-on state + a program that reads a word it never wrote
      uint32_t rk = 0;
      if (reader) {
        // half of the readers look directly behind the image (words 6..15, 20..23: the image has at most 6 words, 16..19 are its stack), the others anywhere
        static const uint32_t NEAR[] = {6, 7, 8, 9, 10, 11, 12, 13, 14, 15, 20, 21, 22, 23};
        rk = (it % 8 == 0) ? NEAR[rng() % 14] : 64 + (uint32_t)(rng() % 500000);
        writeReaderImage("c13_reader.bin", rk); g_image = "c13_reader.bin";
      }
      Outcome clean = runOnce(cleanP, k), got = runOnce(p, k);
      g_image = "c13_img.bin";
      std::string w = differs(got, clean);
      if (!w.empty() && reader) w += " (program exits with the never-written word " + std::to_string(rk) + ")";
      if (!w.empty()) { if (!mism) { why = w; first = p; firstReader = reader ? rk : 0; } mism++; }
    }
    printf("{\"runs\": %ld, \"mismatches\": %ld, \"why\": \"%s\", \"first\": {\"pc\": %u, \"areg\": %u, \"breg\": %u, \"oreg\": %u, \"w0\": %u, \"k\": 40, \"sp\": 0, \"seed\": %d, \"readword\": %u}}\n",
           n, mism, why.c_str(), first.pc, first.a, first.b, first.o, first.w0, first.seed, firstReader);
    return 0;
  }
  fprintf(stderr, "usage\n"); return 2;
}

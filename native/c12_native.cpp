// c12_native.cpp -- native confirmation for C12 on the REAL hexsim::Processor.
//   replay : build the Processor by placement-new over (a) 0xA5-filled and (b) zero-filled storage, load the same image,
//            (1) run a program that exits with the value of a word it never wrote, (2) run a non-terminating program
//            under a cycle limit; outcomes must be equal across (a) and (b) and (1) must exit with 0.
#include <cstdio>
#include <cstdint>
#include <cstring>
#include <fstream>
#include <memory>
#include <new>
#include <sstream>
#include <string>
#include <vector>
#include <unistd.h>
#include "hexsim.hpp"
struct HexVerifAccess {};

static std::string writeImage(const char *name, const std::vector<uint8_t> &code) {
  std::vector<uint8_t> img(code);
  while (img.size() % 4) img.push_back(0);
  uint32_t words = img.size() / 4;
  std::ofstream f(name, std::ios::binary);
  f.write(reinterpret_cast<const char *>(&words), 4);
  f.write(reinterpret_cast<const char *>(img.data()), img.size());
  return name;
}

static int runOn(uint8_t fill, const std::string &file, size_t maxCycles, std::string &out) {
  void *raw = ::operator new(sizeof(hexsim::Processor));
  memset(raw, fill, sizeof(hexsim::Processor));
  std::istringstream in; std::ostringstream os;
  hexsim::Processor *p = new (raw) hexsim::Processor(in, os, maxCycles);
  p->load(file.c_str());
  int rc = p->run();
  out = os.str();
  p->~Processor();
  ::operator delete(raw);
  return rc;
}

int main(int argc, char **argv) {
  char tmpl[] = "/var/tmp/hexc12.XXXXXX"; char *d = mkdtemp(tmpl); if (d) chdir(d);
  // (1) sp = mem[1] is inside the image; exit(mem[sp+2]) where sp+2 is beyond the image (never written).
  //     BR +7 skips the data; word1 = 100 (sp); code: LDAC 0; OPR SVC  -> exit value = mem[102]
  std::vector<uint8_t> p1 = {0x97, 0, 0, 0, 100, 0, 0, 0, 0x30, 0xD3};
  // (2) endless loop: BR -1 ; under --max-cycles 50
  std::vector<uint8_t> p2 = {0xFF, 0x9E};
  std::string f1 = writeImage("p1.bin", p1), f2 = writeImage("p2.bin", p2);
  std::string o;
  int a1 = runOn(0xA5, f1, 0, o), b1 = runOn(0x00, f1, 0, o);
  int a2 = runOn(0xA5, f2, 50, o), b2 = runOn(0x00, f2, 50, o), c2 = runOn(0x3C, f2, 50, o);
  std::string why;
  if (a1 != b1) why = "exit value of a program reading an unwritten word differs with host memory";
  else if (a1 != 0) why = "unwritten memory does not read as zero";
  else if (a2 != b2 || a2 != c2) why = "status of a cycle-limited run differs with host memory";
  printf("{\"ok\": %s, \"why\": \"%s\", \"unwritten_read_exit\": [%d, %d], \"cycle_limit_status\": [%d, %d, %d]}\n", why.empty() ? "true" : "false", why.c_str(), a1, b1, a2, b2, c2);
  if (d) { chdir("/"); std::string c = std::string("rm -rf ") + d; system(c.c_str()); }
  return why.empty() ? 0 : 1;
}

// c12_native.cpp -- native confirmation for C12 on the REAL hexsim::Processor.
//   replay : build the Processor by placement-new over (a) 0xA5-filled and (b) zero-filled storage, load the same image,
//            (1) run a program that exits with the value of a word it never wrote, (2) run a non-terminating program
//            under a cycle limit; outcomes must be equal across (a) and (b) and (1) must exit with 0.
#include <cstdio>
#include <cstdint>
#include <cstring>
#include <fstream>
#include <memory>
#include <new>
#include <sstream>
#include <string>
#include <vector>
#include <iterator>
#include <cstdlib>
#include <unistd.h>
#include "hexasm.hpp"
#include "hexsim.hpp"
struct HexVerifAccess { static uint32_t *memory(hexsim::Processor &p) { return p.memory.data(); } static size_t words() { return hexsim::Processor::MEMORY_SIZE_WORDS; } };

static std::string writeImage(const char *name, const std::vector<uint8_t> &code) {
  std::vector<uint8_t> img(code);
  while (img.size() % 4) img.push_back(0);
  uint32_t words = img.size() / 4;
  std::ofstream f(name, std::ios::binary);
  f.write(reinterpret_cast<const char *>(&words), 4);
  f.write(reinterpret_cast<const char *>(img.data()), img.size());
  return name;
}

// every heap block handed out while a Processor is built/loaded is pre-filled with `g_fill` (dirty host heap)
static uint8_t g_fill = 0; static bool g_fill_on = false;
void *operator new(size_t n) { void *p = malloc(n ? n : 1); if (!p) throw std::bad_alloc(); if (g_fill_on) memset(p, g_fill, n); return p; }
void *operator new[](size_t n) { void *p = malloc(n ? n : 1); if (!p) throw std::bad_alloc(); if (g_fill_on) memset(p, g_fill, n); return p; }
void operator delete(void *p) noexcept { free(p); }
void operator delete[](void *p) noexcept { free(p); }
void operator delete(void *p, size_t) noexcept { free(p); }
void operator delete[](void *p, size_t) noexcept { free(p); }

static bool g_trace = false;
static int runOn(uint8_t fill, const std::string &file, size_t maxCycles, std::string &out) {
  g_fill = fill; g_fill_on = true;
  struct Off { ~Off() { g_fill_on = false; } } off;
  void *raw = ::operator new(sizeof(hexsim::Processor));
  memset(raw, fill, sizeof(hexsim::Processor));
  std::istringstream in; std::ostringstream os;
  hexsim::Processor *p = new (raw) hexsim::Processor(in, os, maxCycles);
  p->setTracing(g_trace);
  p->load(file.c_str());
  int rc = p->run();
  out = os.str();
  p->~Processor();
  ::operator delete(raw);
  return rc;
}

// first word at or beyond `imageWords` that is not zero after construction over `fill`-ed storage + load(); -1 if none
static long scanOn(uint8_t fill, const std::string &file, size_t imageWords) {
  g_fill = fill; g_fill_on = true;
  struct Off { ~Off() { g_fill_on = false; } } off;
  void *raw = ::operator new(sizeof(hexsim::Processor));
  memset(raw, fill, sizeof(hexsim::Processor));
  std::istringstream in; std::ostringstream os;
  hexsim::Processor *p = new (raw) hexsim::Processor(in, os, 0);
  p->load(file.c_str());
  long bad = -1; uint32_t *M = HexVerifAccess::memory(*p);
  for (size_t k = imageWords; k < HexVerifAccess::words(); k++) if (M[k] != 0) { bad = (long)k; break; }
  p->~Processor();
  ::operator delete(raw);
  return bad;
}

static std::string hexScratch(const char *leaf) { const char *b = getenv("HEX_SCRATCH"); return std::string(b && *b ? b : "/var/tmp") + "/" + leaf; } // scratch files live under out/<ID>/scratch (wiped with it)
#include <signal.h>
static const char *g_phase = "";
static void onAlarm(int) {
  printf("{\"ok\": false, \"why\": \"%s does not terminate (30 s): --max-cycles does not bound the run\"}\n", g_phase);
  fflush(stdout); _exit(1);
}
int main(int argc, char **argv) {
  signal(SIGALRM, onAlarm); alarm(30); g_phase = "a run with tracing off under a cycle limit";
  std::string tmplS = hexScratch("hexc12.XXXXXX"); char *d = mkdtemp(&tmplS[0]); if (d) chdir(d);
  // (1) sp = mem[1] is inside the image; exit(mem[sp+2]) where sp+2 is beyond the image (never written).
  //     BR +7 skips the data; word1 = 100 (sp); code: LDAC 0; OPR SVC  -> exit value = mem[102]
  std::vector<uint8_t> p1 = {0x97, 0, 0, 0, 100, 0, 0, 0, 0x30, 0xD3};
  // (2) endless loop: BR -1 ; under --max-cycles 50
  std::vector<uint8_t> p2 = {0xFF, 0x9E};
  std::string f1 = writeImage("p1.bin", p1), f2 = writeImage("p2.bin", p2);
  std::string o;
  int a1 = runOn(0xA5, f1, 0, o), b1 = runOn(0x00, f1, 0, o);
  int a2 = runOn(0xA5, f2, 50, o), b2 = runOn(0x00, f2, 50, o), c2 = runOn(0x3C, f2, 50, o);
  // (3) a binary cut short: the header announces 14 words, the file holds 10; the program prints and exits with words
  //     that are missing from the file (they must read as zero whatever the heap holds)
  std::vector<uint8_t> p3 = {0x97, 0, 0, 0, 0xFF, 0x3F, 0, 0,            // BR +7 ; DATA 16383 (sp)
                             0x11, 0x36, 0x66, 0x82, 0x30, 0xD3,         // LDBM 1; LDAC 6; LDAI 6 (table[6]=word 12); STAI 2; LDAC 0; OPR SVC -> exit(mem[12])
                             0, 0};
  while (p3.size() < 56) p3.push_back(0);
  std::string f3 = writeImage("p3.bin", p3);
  { std::ifstream in("p3.bin", std::ios::binary); std::vector<char> all((std::istreambuf_iterator<char>(in)), std::istreambuf_iterator<char>()); std::ofstream o2("p3s.bin", std::ios::binary); o2.write(all.data(), 44); }
  int a3 = runOn(0xA5, "p3s.bin", 1000, o), b3 = runOn(0x00, "p3s.bin", 1000, o), c3 = runOn(0x5C, "p3s.bin", 1000, o), d3 = runOn(0xA5, "p3.bin", 1000, o);
  // (4) tracing only adds text: a program that reads two bytes, echoes them to the file stream 256 (simout1) and exits with
  //     their sum, run with tracing off and on: same exit value, same echoed bytes, same input consumption
  std::vector<uint8_t> p4 = {0x97, 0, 0, 0, 100, 0, 0, 0,                       // BR +7 ; DATA 100 (sp)
     0x11, 0x30, 0x82, 0x32, 0xD3,                                               // LDBM 1; LDAC 0; STAI 2 (stream 0); LDAC 2; OPR SVC   -> mem[sp+1] = byte
     0x11, 0x61, 0x82, 0xE1, 0xE0, 0x30, 0x83, 0x31, 0xD3,                       // LDBM 1; LDAI 1; STAI 2; LDAC 256; STAI 3; LDAC 1; OPR SVC -> write byte to simout1
     0x11, 0x30, 0x82, 0x32, 0xD3,                                               // second read
     0x11, 0x61, 0x82, 0x30, 0xD3};                                              // LDBM 1; LDAI 1; STAI 2; LDAC 0; OPR SVC -> exit(second byte)
  std::string f4 = writeImage("p4.bin", p4);
  alarm(60); g_phase = "a run with/without tracing under a cycle limit";
  // (4b) the cycle limit cuts a run short at the same point with tracing off and on: the endless loop p2 under
  //      --max-cycles 50 must return (with the same status) in both modes
  int lim_off = -1, lim_on = -2;
  for (int tr = 0; tr < 2; tr++) {
    std::istringstream in; std::ostringstream os;
    std::unique_ptr<hexsim::Processor> p(new hexsim::Processor(in, os, 50)); p->setTracing(tr == 1); p->load(f2.c_str());
    int rc = p->run(); (tr ? lim_on : lim_off) = rc;
  }
  int t_off = 0, t_on = 0; std::string e_off, e_on; long c_off = 0, c_on = 0; bool threw = false;
  for (int tr = 0; tr < 2; tr++) {
    remove("simout1");
    std::istringstream in("Qz!"); std::ostringstream os;
    int rc = -12345;
    try { std::unique_ptr<hexsim::Processor> p(new hexsim::Processor(in, os, 100000)); p->setTracing(tr == 1); p->load(f4.c_str()); rc = p->run(); } catch (std::exception &) { threw = true; }
    in.clear(); long cons = (long)in.tellg(); if (cons < 0) cons = 3;
    std::ifstream sf("simout1", std::ios::binary); std::string echoed((std::istreambuf_iterator<char>(sf)), std::istreambuf_iterator<char>());
    if (tr == 0) { t_off = rc; e_off = echoed; c_off = cons; } else { t_on = rc; e_on = echoed; c_on = cons; }
  }
  // (6) a READ from a stream file (simin1 holds "a"): the byte read, hence the exit value, must not depend on host memory
  { std::ofstream si("simin1", std::ios::binary); si << "a"; }
  std::vector<uint8_t> p6 = {0x97, 0, 0, 0, 100, 0, 0, 0,                 // BR +7 ; DATA 100 (sp)
     0x11, 0xE1, 0xE0, 0x30, 0x82, 0x32, 0xD3,                             // LDBM 1; LDAC 256; STAI 2 (stream 256); LDAC 2; OPR SVC -> mem[sp+1] = byte
     0x01, 0x61, 0x11, 0x82, 0x30, 0xD3};                                  // LDAM 1; LDAI 1; LDBM 1; STAI 2; LDAC 0; OPR SVC -> exit(byte)
  std::string f6 = writeImage("p6.bin", p6);
  alarm(60); g_phase = "a run reading a stream file";
  int a6 = runOn(0xA5, f6, 1000, o), b6 = runOn(0x00, f6, 1000, o), c6 = runOn(0x01, f6, 1000, o);
  // (7) the same stream read twice: the second read is at end of file and must deliver 255 (the reference simulator's value
  //     for end of input), whatever the host memory holds
  std::vector<uint8_t> p7 = {0x97, 0, 0, 0, 100, 0, 0, 0,
     0x11, 0xE1, 0xE0, 0x30, 0x82, 0x32, 0xD3,                             // read stream 256 -> mem[sp+1]
     0x11, 0xE1, 0xE0, 0x30, 0x82, 0x32, 0xD3,                             // read it again (end of file)
     0x01, 0x61, 0x11, 0x82, 0x30, 0xD3};                                  // exit(mem[sp+1])
  std::string f7 = writeImage("p7.bin", p7);
  int a7 = runOn(0xA5, f7, 1000, o), b7 = runOn(0x00, f7, 1000, o), c7 = runOn(0x5C, f7, 1000, o);
  // (8) trace text of a program WITH debug symbols (three procedures, execution passes through the last one): the same
  //     bytes whatever the heap held before (every block handed out is pre-filled with the given pattern)
  std::string t8a, t8b, t8c; int a8 = 0, b8 = 0, c8 = 0; bool asm8 = false;
  try {
    hexasm::Lexer lexer; hexasm::Parser parser(lexer);
    lexer.loadBuffer("BR start\nDATA 100\nPROC one\nLDAC 1\nOPR BRB\nFUNC two\nLDAC 2\nOPR BRB\nPROC a_rather_long_procedure_name\nLDAC 3\nstart\nLDBM 1\nLDAC 5\nSTAI 2\nLDAC 0\nOPR SVC\n");
    auto program = parser.parseProgram(); hexasm::CodeGen cg(program); cg.emitBin("p8.bin"); asm8 = true;
  } catch (std::exception &) {}
  if (asm8) {
    alarm(60); g_phase = "a traced run of a program with debug symbols";
    g_trace = true;
    a8 = runOn(0xA5, "p8.bin", 1000, t8a); b8 = runOn(0x00, "p8.bin", 1000, t8b); c8 = runOn(0x5C, "p8.bin", 1000, t8c);
    g_trace = false;
  }
  // (5) every word outside the loaded image is zero after construction over dirty storage + load (whole array scanned)
  long s5 = scanOn(0xA5, f1, (p1.size() + 3) / 4);
  std::string why;
  if (a6 != b6 || a6 != c6 || a6 != 'a') why = "a byte read from a stream file (simin1 = 'a') depends on host memory: exit values " + std::to_string(a6) + ", " + std::to_string(b6) + ", " + std::to_string(c6) + " over 0xA5 / 0x00 / 0x01 storage";
  else if (a7 != b7 || a7 != c7 || a7 != 255) why = "a read at the end of a stream file does not deliver 255 or depends on host memory: exit values " + std::to_string(a7) + ", " + std::to_string(b7) + ", " + std::to_string(c7);
  else if (asm8 && (t8a.find("a_rather_long_procedure_name+1") == std::string::npos || t8b.find("a_rather_long_procedure_name+1") == std::string::npos || t8c.find("a_rather_long_procedure_name+1") == std::string::npos))
    why = "the -t output of a program with debug symbols does not show the (long) name of the procedure being executed: the symbol column holds something else (heap residue)";
  else if (asm8 && (t8a != t8b || t8a != t8c || a8 != b8 || a8 != c8)) why = "the -t output of a program with debug symbols depends on what the heap held before (pre-fill 0xA5 / 0x00 / 0x5C give different text)";
  else if (lim_off != lim_on) why = "a run cut short by --max-cycles returns a different status with tracing on";
  else if (s5 >= 0) why = "memory word " + std::to_string(s5) + " outside the loaded image is not zero after construction over dirty storage (reads of it depend on host memory)";
  else if (threw || t_off != t_on || e_off != e_on || c_off != c_on) why = "enabling tracing changes exit value, echoed bytes or input consumption of a program using the read call";
  else if (a3 != b3 || a3 != c3 || a3 != d3) why = "exit value of a binary cut short depends on host heap contents";
  else if (a1 != b1) why = "exit value of a program reading an unwritten word differs with host memory";
  else if (a1 != 0) why = "unwritten memory does not read as zero";
  else if (a2 != b2 || a2 != c2) why = "status of a cycle-limited run differs with host memory";
  printf("{\"ok\": %s, \"why\": \"%s\", \"unwritten_read_exit\": [%d, %d], \"cycle_limit_status\": [%d, %d, %d], \"short_file_exit\": [%d, %d, %d, %d]}\n", why.empty() ? "true" : "false", why.c_str(), a1, b1, a2, b2, c2, a3, b3, c3, d3);
  if (d) { chdir("/"); std::string c = std::string("rm -rf ") + d; system(c.c_str()); }
  return why.empty() ? 0 : 1;
}

"""dirx -- mechanical extraction of the hexasm::Directive class family and of the loop bodies of
CodeGen::resolveLabels / emitProgramBin / emitProgramText into C.

Shape 3 of DESIGN.md 3.1: one tagged C struct `Directive` holding the union of the fields parsed from the class
bodies (`Class_field`), every method body copied verbatim into `Class_method(Directive *this_, ...)` with field names
prefixed by `this_->Class_`, and virtual calls turned into generated `switch`es over the dynamic class tag built from
the overriders found in the header on this run (an unknown class or a missing override aborts).
Names (std::string) and Locations are opaque integer ids; label names become the index of the declaring directive
(std::map semantics "last directive declaring that name" is assumed, and checked by the native sweep).
"""
import re
from hv import Source, rewrite, strip_comments, ExtractionError, leftover_check, match_close

CLASSES = ["Directive", "Data", "Label", "Func", "Proc", "InstrImm", "InstrLabel", "InstrOp", "Padding"]
WANT = ["getToken", "setByteOffset", "getByteOffset", "isAssembled", "operandIsLabel", "getSize", "getValue", "setLabelValue",
        "isRelative", "getLabel", "setLength"]
TYPEMAP = {"size_t": "size_t", "Token": "Token", "int": "int", "bool": "bool", "unsigned": "unsigned",
           # other integer widths keep their width (a narrowed member truncates in the extracted text exactly as in C++)
           "uint8_t": "uint8_t", "uint16_t": "uint16_t", "uint32_t": "uint32_t", "uint64_t": "uint64_t", "int8_t": "int8_t", "int16_t": "int16_t", "int32_t": "int32_t",
           "int64_t": "int64_t", "short": "short", "long": "long", "unsigned short": "unsigned short", "unsigned long": "unsigned long", "char": "char", "unsigned char": "unsigned char"}


def family(manifest):
    src = Source("hexasm.hpp", manifest)
    ns = src.text[src.text.index("namespace hexasm {"):]
    info = {}
    for c in CLASSES:
        m = re.search(r"class %s\b[^{;]*\{" % c, ns)
        if not m:
            raise ExtractionError("class %s not found" % c)
        lb = m.end() - 1
        rb = match_close(ns, lb)
        body = ns[lb + 1:rb]
        base = re.search(r"class %s : public (\w+)" % c, ns)
        priv = strip_comments(body.split("public:")[0])
        fields = [(t.strip(), n) for t, n in re.findall(r"^\s*([\w:]+(?:\s+\w+)?)\s+(\w+);", priv, re.M)]
        meths = {}
        for mm in re.finditer(r"^\s*(?:virtual\s+)?(const\s+std::string\s*&|[\w:]+(?:\s*[&*])?)\s*(\w+)\(([^)]*)\)\s*(const)?\s*\{", body, re.M):
            ret, name, args = mm.group(1), mm.group(2), mm.group(3)
            if name == c:
                continue
            i = mm.end() - 1
            j = match_close(body, i)
            meths[name] = (ret.strip(), args, body[i:j + 1])
        pure = re.findall(r"virtual\s+[\w:]+\s+(\w+)\(\)\s*const\s*=\s*0;", body)
        info[c] = dict(base=base.group(1) if base else None, fields=fields, meths=meths, pure=pure)
    # any other subclass of Directive in the header is unknown to the generated dispatchers
    for m in re.finditer(r"class (\w+) : public (\w+)", ns):
        if m.group(2) in CLASSES and m.group(1) not in CLASSES:
            raise ExtractionError("unknown Directive subclass %s: dispatcher generation does not cover it" % m.group(1))

    def owner(c, f):
        while c:
            if f in [n for _, n in info[c]["fields"]]:
                return c
            c = info[c]["base"]
        return None

    def all_fields(c):
        f = []
        while c:
            f = info[c]["fields"] + f
            c = info[c]["base"]
        return f

    out = ["typedef struct Directive { int cls;"]
    fieldlist = []
    for c in CLASSES:
        for t, n in info[c]["fields"]:
            ct = "int" if t in ("std::string", "Location") else TYPEMAP.get(t)
            if ct is None:
                raise ExtractionError("class %s: field %s of type %s not understood" % (c, n, t))
            out.append("  %s %s_%s;%s" % (ct, c, n, "  /* %s: opaque id */" % t if t in ("std::string", "Location") else ""))
            fieldlist.append("%s_%s" % (c, n))
    out.append("} Directive;")
    for i, c in enumerate(CLASSES):
        out.append("#define CLS_%s %d" % (c, i))

    def conv(c, text):
        names = set(n for _, n in all_fields(c))
        for n in sorted(names, key=len, reverse=True):
            text = re.sub(r"(?<![\w.>])(%s)\b(?!\s*\()" % re.escape(n), lambda m, c=c: "this_->%s_%s" % (owner(c, m.group(1)), m.group(1)), text)
        text = text.replace("std::max", "VMAX")
        text = re.sub(r"\bToken::(\w+)", r"T_\1", text)
        return text

    protos, defs = [], []
    for c in CLASSES:
        for mname, (ret, args, body) in info[c]["meths"].items():
            if mname not in WANT:
                continue
            r = {"std::string": "int", "const std::string &": "int", "unsigned": "unsigned", "size_t": "size_t", "int": "int", "bool": "bool", "void": "void", "Token": "Token"}.get(ret)
            if r is None:
                raise ExtractionError("%s::%s: return type %r not understood" % (c, mname, ret))
            a = "Directive *this_" + (", " + args if args.strip() else "")
            b = conv(c, body)
            if mname == "getLabel":
                b = re.sub(r"return this_->(\w+);", r"return this_->\1;", b)
            leftover_check(b, "%s::%s" % (c, mname))
            protos.append("static %s %s_%s(%s);" % (r, c, mname, a))
            defs.append("static %s %s_%s(%s) %s" % (r, c, mname, a, b))
    out += protos + defs

    def resolve(c, m):
        while c:
            if m in info[c]["meths"]:
                return c
            c = info[c]["base"]
        return None
    dispatch = {}
    for m, ret in (("getSize", "size_t"), ("getValue", "int"), ("operandIsLabel", "bool")):
        out.append("static %s V_%s(Directive *d) { switch (d->cls) {" % (ret, m))
        dispatch[m] = {}
        for c in CLASSES:
            o = resolve(c, m)
            if o is None:
                if c == "Directive":
                    continue
                raise ExtractionError("class %s has no override of %s" % (c, m))
            out.append("  case CLS_%s: return %s_%s(d);" % (c, o, m))
            dispatch[m][c] = o
        out.append('  default: __CPROVER_assert(0, "pure virtual call / unknown directive class"); return 0; } }')
    # supporting static facts behind WF(): what the constructors establish for the fields the layout pass reads before it
    # writes them (checked textually on every constructor's initialiser list)
    ctor_facts = {}
    for c, must in (("Directive", ["byteOffset(0)", "assembled(false)"]), ("Label", ["labelValue(0)"]), ("InstrLabel", ["labelValue(0)", "length(1)"])):
        m = re.search(r"class %s\b[^{;]*\{" % c, ns)
        cb = ns[m.end() - 1:match_close(ns, m.end() - 1) + 1]
        ctors = re.findall(r"\b%s\(([^)]*)\)\s*:\s*([^{]*)\{" % c, cb)
        if not ctors:
            raise ExtractionError("class %s: no constructor with an initialiser list found" % c)
        for args, inits in ctors:
            flat = "".join(inits.split())
            for item in must:
                if item not in flat:
                    raise ExtractionError("class %s: constructor (%s) does not establish %s (well-formedness assumption WF() of the layout proof)" % (c, args.strip(), item))
        ctor_facts[c] = {"constructors": len(ctors), "establishes": must}
    manifest.append({"unit": "Directive constructors (static facts for WF)", "facts": ctor_facts})
    manifest.append({"unit": "Directive family", "classes": {c: {"base": info[c]["base"], "fields": [n for _, n in info[c]["fields"]],
                                                                 "methods": sorted(m for m in info[c]["meths"] if m in WANT)} for c in CLASSES},
                     "virtual_dispatch": dispatch,
                     "dropped": ["constructors (objects are assumed well-formed as the parser/xcmp build them)", "toString rendering", "Location", "std::string contents"]})
    return "\n".join(out) + "\n", info


PASS_RULES = [
    (r"directive->getToken\(\)", "Directive_getToken(directive)", 4),
    (r"\bToken::(\w+)", r"T_\1", 4),
    (r"dynamic_cast<Label\*>\(directive\.get\(\)\)->setLabelValue\(", "Label_setLabelValue(directive, ", 1, 1),
    (r"directive->operandIsLabel\(\)", "V_operandIsLabel(directive)", 1, 1),
    (r"auto instrLabel = dynamic_cast<InstrLabel\*>\(directive\.get\(\)\);", "Directive *instrLabel = directive;", 1, 1),
    (r"labelMap\.count\(instrLabel->getLabel\(\)\) == 0", "InstrLabel_getLabel(instrLabel) == NO_LABEL", 1, 1),
    (r"throw UnknownLabelError\([^;]*\);", "{ VERIF_THROW(UnknownLabelError); return -1; }", 1, 1),
    (r"labelMap\[instrLabel->getLabel\(\)\]->getValue\(\)", "V_getValue(LABEL_TARGET(InstrLabel_getLabel(instrLabel)))", 1, 1),
    (r"instrLabel->isRelative\(\)", "InstrLabel_isRelative(instrLabel)", 1, 1),
    (r"instrLabel->getSize\(\)", "V_getSize(instrLabel)", 0),
    (r"instrLen\(([^,()]+), ([^,()]+)\)", r"instrLen(\1, \2, 1)", 0),   # the default argument minLength=1 written out
    (r"instrLabel->setLength\(", "InstrLabel_setLength(instrLabel, ", 2),
    (r"instrLabel->setLabelValue\(", "InstrLabel_setLabelValue(instrLabel, ", 2),
    (r"unaligned = directive\.get\(\);", "unaligned = directive;", 1, 1),
    (r"directive->setByteOffset\(", "Directive_setByteOffset(directive, ", 1, 1),
    (r"directive->getSize\(\)", "V_getSize(directive)", 1, 1),
]


def resolve_pass(manifest):
    """the inner `for (auto &directive : program)` of CodeGen::resolveLabels as pass_body(directive), plus the text
    around it (outer loop header, prologue, epilogue) returned for structural checks"""
    src = Source("hexasm.hpp", manifest)
    rl, _, _ = src.block_after(r"void resolveLabels\(\) \{", "CodeGen::resolveLabels")
    m = re.search(r"for \(auto &directive : program\) \{", rl)
    if not m:
        raise ExtractionError("resolveLabels: inner loop not found")
    lb = m.end() - 1
    rb = match_close(rl, lb)
    body = rewrite(rl[lb:rb + 1], PASS_RULES, "resolveLabels pass body", manifest)
    leftover_check(body, "pass_body")
    if "->" in re.sub(r"this_->|directive->cls", "", body) and re.search(r"\w->\w+\(", body):
        raise ExtractionError("resolveLabels pass body: unconverted member call left: %r" % re.search(r"\w+->\w+\(", body).group(0))
    # outer structure, compared piecewise with the one the pass contract was written for.  The statements at the top of
    # the while body (the pass entry) are extracted and executed by the base-case harnesses, so dropping or adding one of
    # them is decided by the proof instead of aborting the extraction.
    outer = strip_comments(rl[:m.start()] + "FOR_LOOP;" + rl[rb + 1:])
    outer = " ".join(outer.split())
    mw = re.search(r"while \(changed\) \{", outer)
    if not mw or not outer.startswith("{ ") or not outer.endswith(" }"):
        raise ExtractionError("resolveLabels: outer `while (changed) {` loop not found: %s" % outer)
    wb = mw.end() - 1
    we = match_close(outer, wb)
    pre = outer[2:mw.start()].strip()
    wbody = outer[wb + 1:we].strip()
    post = outer[we + 1:-2].strip()
    if "FOR_LOOP;" not in wbody:
        raise ExtractionError("resolveLabels: inner loop is not directly inside `while (changed)`")
    entry, after = [x.strip() for x in wbody.split("FOR_LOOP;", 1)]
    want_pre = {"bool firstPass = true;", "bool changed = true;", "Directive *unaligned = nullptr;"}
    got_pre = set(x.strip() + ";" for x in pre.split(";") if x.strip())
    if got_pre != want_pre:
        raise ExtractionError("resolveLabels: declarations before the loop differ: found %s expected %s" % (sorted(got_pre), sorted(want_pre)))
    if after != "if (firstPass) { firstPass = false; changed = true; }":
        raise ExtractionError("resolveLabels: statements after the inner loop differ: %r" % after)
    if post != 'if (unaligned) { throw Error(unaligned->getLocation(), "absolute label reference is not word aligned"); }':
        raise ExtractionError("resolveLabels: statements after the outer loop differ: %r" % post)
    estmts = [x.strip() for x in entry.split(";") if x.strip()]
    centry = []
    for st in estmts:
        me = re.fullmatch(r"(?:int )?(changed|unaligned|byteOffset) = (false|true|nullptr|0)", st)
        if not me:
            raise ExtractionError("resolveLabels: pass-entry statement not understood: %r" % st)
        centry.append("%s = %s;" % (me.group(1), {"nullptr": "NULL"}.get(me.group(2), me.group(2))))
    if "byteOffset = 0;" not in centry:
        raise ExtractionError("resolveLabels: `int byteOffset = 0;` is not declared at pass entry")
    manifest.append({"unit": "CodeGen::resolveLabels outer structure", "text": outer, "pass_entry": centry})
    pass_entry = "#define PASS_ENTRY() do { %s } while (0)\n" % " ".join(centry)
    return pass_entry + "static int pass_body(Directive *directive) " + body.rstrip()[:-1] + "  return 0;\n}\n"


EMIT_RULES = [
    (r"directive->getSize\(\)", "V_getSize(directive)", 1),
    (r"directive->getToken\(\)", "Directive_getToken(directive)", 3),
    (r"directive->getValue\(\)", "V_getValue(directive)", 1),
    (r"\bToken::(\w+)", r"T_\1", 4),
    (r"auto funcDirective = dynamic_cast<Func\*>\(directive\.get\(\)\);", "Directive *funcDirective = directive;", 1, 1),
    (r"auto procDirective = dynamic_cast<Proc\*>\(directive\.get\(\)\);", "Directive *procDirective = directive;", 1, 1),
    (r"debugInfo\.push_back\(std::make_pair\((\w+)->getLabel\(\), byteOffset\)\);", r"DEBUGINFO_PUSH(Label_getLabel(\1), byteOffset);", 2, 2),
    (r"outputFile\.put\(", "OUT_PUT(", 3),
    (r"outputFile\.write\(reinterpret_cast<const char\*>\(&(\w+)\), (\w+)\);", r"OUT_WRITE(&\1, \2);", 1),
    (r"auto dataDirective = dynamic_cast<Data\*>\(directive\.get\(\)\);", "Directive *dataDirective = directive;", 1, 1),
    (r"auto value = dataDirective->getValue\(\);", "int value = Data_getValue(dataDirective);", 1, 1),
    (r"hex::Instr::", "", 3),
    (r"hex::Instr\b", "Instr", 1),
]


def emit_body(manifest):
    src = Source("hexasm.hpp", manifest)
    fn, _, _ = src.block_after(r"void emitProgramBin\(std::ostream &outputFile\) \{", "CodeGen::emitProgramBin")
    m = re.search(r"for \(auto &directive : program\) \{", fn)
    if not m:
        raise ExtractionError("emitProgramBin: loop not found")
    head = " ".join(strip_comments(fn[1:m.start()]).split())
    if head != "int byteOffset = 0;":
        raise ExtractionError("emitProgramBin: unexpected prologue %r" % head)
    lb = m.end() - 1
    rb = match_close(fn, lb)
    tail = strip_comments(fn[rb + 1:]).strip().rstrip("}").strip()
    if tail:
        raise ExtractionError("emitProgramBin: unexpected epilogue %r" % tail)
    body = rewrite(fn[lb:rb + 1], EMIT_RULES, "emitProgramBin loop body", manifest)
    leftover_check(body, "emit_body")
    return "static void emit_body(Directive *directive) " + body + "\n"


def list_body(manifest):
    """emitProgramText loop: the three values each line prints"""
    src = Source("hexasm.hpp", manifest)
    fn, _, _ = src.block_after(r"void emitProgramText\(std::ostream &out\) \{", "CodeGen::emitProgramText")
    m = re.search(r"for \(auto &directive : program\) \{", fn)
    if not m:
        raise ExtractionError("emitProgramText: loop not found")
    lb = m.end() - 1
    rb = match_close(fn, lb)
    body = rewrite(fn[lb:rb + 1], [
        (r"out << boost::format\(\"%#08x %-20s \(%d bytes\)\\n\"\)\s*% directive->getByteOffset\(\)\s*% directive->toString\(\)\s*% directive->getSize\(\);",
         "LIST_LINE(Directive_getByteOffset(directive), TOSTRING_OPERAND(directive), V_getSize(directive));", 1, 1),
        (r"directive->getSize\(\)", "V_getSize(directive)", 1, 1),
    ], "emitProgramText loop body", manifest)
    leftover_check(body, "list_body")
    # what InstrLabel::toString prints as operand
    cls = src.text[src.text.index("class InstrLabel : public Directive {"):]
    ts, _, _ = Source("hexasm.hpp", manifest).block_after(r"class InstrLabel : public Directive \{.*?std::string toString\(\) const \{", "InstrLabel::toString")
    if not re.search(r"if \(isAssembled\(\)\) \{\s*str \+= \" \(\" \+ std::to_string\(labelValue\) \+ \"\)\";", ts):
        raise ExtractionError("InstrLabel::toString: expected `(labelValue)` printed when assembled")
    ts2, _, _ = Source("hexasm.hpp", manifest).block_after(r"class InstrImm : public Directive \{.*?std::string toString\(\) const \{", "InstrImm::toString")
    if "std::to_string(immValue)" not in ts2:
        raise ExtractionError("InstrImm::toString: expected immValue printed")
    manifest.append({"unit": "toString operand", "InstrLabel": "labelValue when isAssembled()", "InstrImm": "immValue", "dropped": ["text rendering (boost::format, std::to_string)"]})
    return "static void list_body(Directive *directive) " + body + "\n"


INSTRLEN_CONTRACT = """
/* label and instruction positions inside an image below 2^28 bytes; minLength is an encoding length */
__CPROVER_requires(labelOffset >= 0 && labelOffset <= (1 << 28) && byteOffset >= 0 && byteOffset <= (1 << 28) && minLength >= 1 && minLength <= 8)
/* never shrinks, is an encoding length, and the operand computed for this length fits in it */
__CPROVER_ensures(__CPROVER_return_value >= minLength && __CPROVER_return_value <= 8)
__CPROVER_ensures(FITS(labelOffset - byteOffset - __CPROVER_return_value, __CPROVER_return_value))
__CPROVER_assigns()
"""


INSTRLEN_LOOP_CONTRACT = True


def instrLen(manifest, with_contract=True):
    src = Source("hexasm.hpp", manifest)
    b, _, _ = src.block_after(r"static int instrLen\(int labelOffset, int byteOffset, int minLength=1\) \{", "instrLen")
    # the loop contract is spliced onto the growth loop when it has the known shape; any other shape (for loop, no loop at
    # all) is left as it is and the jobs unwind it 9 times with unwinding assertions (lengths are at most 8)
    global INSTRLEN_LOOP_CONTRACT
    shape = r"while \(length < numNibbles\(labelOffset - byteOffset - length\)\) \{"
    INSTRLEN_LOOP_CONTRACT = len(re.findall(shape, b)) == 1 and len(re.findall(r"\b(?:while|for)\b", b)) == 1
    if with_contract and INSTRLEN_LOOP_CONTRACT:
        b = rewrite(b, [(shape,
                         "while (length < numNibbles(labelOffset - byteOffset - length))\n"
                         "  __CPROVER_assigns(length)\n"
                         "  __CPROVER_loop_invariant(length >= minLength && length <= 8)\n"
                         "  __CPROVER_decreases(8 - length)\n  {", 1, 1)], "instrLen", manifest)
    b = b.replace("std::max(", "VMAX(").replace("std::min(", "VMIN(")
    leftover_check(b, "instrLen")
    manifest.append({"unit": "instrLen", "loop_contract_spliced": INSTRLEN_LOOP_CONTRACT})
    return "static int instrLen(int labelOffset, int byteOffset, int minLength)" + (INSTRLEN_CONTRACT if with_contract else "\n") + b + "\n"


def emit_debug_parts(manifest):
    """CodeGen::emitDebugInfo: structure text-matched; the two loop bodies extracted.
    Returns C text defining dbg_emit_strings_body(pair) and dbg_emit_symbols_body(pair) over a `DebugPair {int first; unsigned second;}`."""
    src = Source("hexasm.hpp", manifest)
    fn, _, _ = src.block_after(r"void emitDebugInfo\(std::ostream &outputFile\) \{", "CodeGen::emitDebugInfo")
    loops = list(re.finditer(r"for \(const auto &pair : debugInfo\) \{", fn))
    if len(loops) != 2:
        raise ExtractionError("emitDebugInfo: expected two loops over debugInfo, found %d" % len(loops))
    bodies = []
    skeleton = fn
    for m in reversed(loops):
        lb = m.end() - 1
        rb = match_close(fn, lb)
        bodies.insert(0, fn[lb:rb + 1])
        skeleton = skeleton[:m.start()] + "LOOP;" + skeleton[rb + 1:]
    sk = " ".join(strip_comments(skeleton).split())
    sk = re.sub(r"\bassert\((?:[^()]|\([^()]*\))*\); ?", "", sk)   # assert() statements between the loops are not part of the structure
    want = ("{ uint32_t tableSize = debugInfo.size(); outputFile.write(reinterpret_cast<const char*>(&tableSize), sizeof(uint32_t)); LOOP; "
            "outputFile.write(reinterpret_cast<const char*>(&tableSize), sizeof(uint32_t)); uint32_t tableIndex = 0; LOOP; }")
    if sk != want:
        raise ExtractionError("emitDebugInfo: structure differs from the one the round-trip lemma was written for:\n found %s\n expected %s" % (sk, want))
    b1 = rewrite(bodies[0], [(r"auto name = pair\.first;", "int name = pair->first;", 1, 1),
                             (r"outputFile\.write\(name\.c_str\(\), name\.length\(\)\+1\);", "OUT_STRING(name);", 1, 1)], "emitDebugInfo string loop body", manifest)
    b2 = rewrite(bodies[1], [(r"pair\.second", "pair->second", 1, 1),
                             (r"outputFile\.write\(reinterpret_cast<const char\*>\(&(\w+)\), sizeof\(uint32_t\)\);", r"OUT_U32(\1);", 2, 2)], "emitDebugInfo symbol loop body", manifest)
    leftover_check(b1, "dbg_emit_strings_body")
    leftover_check(b2, "dbg_emit_symbols_body")
    manifest.append({"unit": "CodeGen::emitDebugInfo structure", "text": sk, "dropped": ["string bytes (names are ids)"]})
    return ("static void dbg_emit_strings_body(const DebugPair *pair) " + b1 + "\n"
            "static void dbg_emit_symbols_body(const DebugPair *pair) " + b2 + "\n")

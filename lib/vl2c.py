"""vl2c -- run Verilator 5.006 on RTL sources and convert its --cc output to one C translation unit.

The generated C++ is C in all but spelling (free functions over structs of CData/IData fields).  The
conversion is a fixed list of textual rules with fire counts recorded in the extraction manifest:

  class X final : public VerilatedModule/VerilatedSyms {...}  -> struct X {...} (data members only)
  VL_IN8/VL_OUT8/VL_IN/VL_OUT(name,msb,lsb)                    -> CData/IData name   (prelude macros)
  VlUnpacked<T, N> name                                        -> T *name  (+ #define <X>_<name>_DEPTH N); every
                                                                 index wrapped in VL_IDX(e, N) which asserts e < N
  VlTriggerVec<1> (at/any/clear/set/andNot)                    -> 1-flag struct + expressions
  #ifdef VL_DEBUG ... #endif, VL_DEBUG_IF(...)                 -> dropped
  the `$test$plusargs("trace")` block of hex.sv's initial      -> dropped (VCD set-up only)
  array reset loop `for (...) a[i] = VL_RAND_RESET_I(w);`      -> VL_HAVOC_ARRAY(a, N)  (harness: fresh object = arbitrary)
  <Model>::eval_step() from <Model>.cpp                        -> <Model>_eval_step(Syms*) with the Verilated:: thread
                                                                 bookkeeping calls dropped
VL_* helper functions used by the design are provided by the prelude below, copied by name from
/usr/share/verilator/include/verilated_funcs.h semantics (trusted, listed in evidence).
"""
import glob
import hashlib
import os
import re

import hv
from hv import ExtractionError, match_close

PRELUDE = r"""
#include <stdbool.h>
#include <stdint.h>
#include <stddef.h>
typedef uint8_t CData; typedef uint16_t SData; typedef uint32_t IData; typedef uint64_t QData;
typedef struct { bool m_flags[1]; } VlTriggerVec1; typedef struct { bool m_flags[2]; } VlTriggerVec2; typedef struct { bool m_flags[3]; } VlTriggerVec3;
typedef struct { bool m_flags[4]; } VlTriggerVec4; typedef struct { bool m_flags[5]; } VlTriggerVec5; typedef struct { bool m_flags[6]; } VlTriggerVec6;
typedef struct { bool m_flags[7]; } VlTriggerVec7; typedef struct { bool m_flags[8]; } VlTriggerVec8;
/* VlTriggerVec<N> operations (verilated_types.h semantics: bitset of N triggers), loop-free for N <= 8 */
#define VL_TV_N(x) (sizeof((x).m_flags) / sizeof((x).m_flags[0]))
#define VL_TV_F(x, k) (VL_TV_N(x) > (k) && (x).m_flags[VL_TV_N(x) > (k) ? (k) : 0])
#define VL_TV_ANY(x) (VL_TV_F(x, 0) || VL_TV_F(x, 1) || VL_TV_F(x, 2) || VL_TV_F(x, 3) || VL_TV_F(x, 4) || VL_TV_F(x, 5) || VL_TV_F(x, 6) || VL_TV_F(x, 7))
#define VL_TV_EACH(x, k, e) do { if (VL_TV_N(x) > (k)) (x).m_flags[VL_TV_N(x) > (k) ? (k) : 0] = (e); } while (0)
#define VL_TV_ALL(x, E) do { VL_TV_EACH(x, 0, E(0)); VL_TV_EACH(x, 1, E(1)); VL_TV_EACH(x, 2, E(2)); VL_TV_EACH(x, 3, E(3)); VL_TV_EACH(x, 4, E(4)); VL_TV_EACH(x, 5, E(5)); VL_TV_EACH(x, 6, E(6)); VL_TV_EACH(x, 7, E(7)); } while (0)
#define VL_IN8(n,m,l) CData n
#define VL_OUT8(n,m,l) CData n
#define VL_IN16(n,m,l) SData n
#define VL_OUT16(n,m,l) SData n
#define VL_IN(n,m,l) IData n
#define VL_OUT(n,m,l) IData n
#define VL_IN64(n,m,l) QData n
#define VL_OUT64(n,m,l) QData n
#define VL_INLINE_OPT
#define VL_ATTR_UNUSED
#define VL_ATTR_COLD
#define VL_DEBUG_IF(x)
#define VL_UNLIKELY(x) (x)
#define VL_LIKELY(x) (x)
void vl_fatal(const char *msg);
#define VL_FATAL_MT(file, line, hier, msg) vl_fatal(msg)
IData vl_rand_reset_i(int width);
QData vl_rand_reset_q(int width);
#define VL_RAND_RESET_I(w) vl_rand_reset_i(w)
#define VL_RAND_RESET_Q(w) vl_rand_reset_q(w)
#ifndef VL_IDX
#define VL_IDX(e, n) (e)
#endif
#ifndef VL_HAVOC_ARRAY
#define VL_HAVOC_ARRAY(a, n) ((void)0)
#endif
/* verilated_funcs.h helpers (semantics copied by name) */
static inline QData VL_EXTENDS_QQ(int obits, int lbits, QData lhs) { (void)obits; return lhs | ((0ULL - ((lhs >> (lbits - 1)) & 1ULL)) << (lbits - 1)); }
static inline IData VL_EXTENDS_II(int obits, int lbits, IData lhs) { IData m = (obits >= 32) ? 0xFFFFFFFFu : ((1u << obits) - 1u); return (lhs | ((0u - ((lhs >> (lbits - 1)) & 1u)) << (lbits - 1))) & m; }
static inline IData VL_GTS_III(int lbits, IData lhs, IData rhs) { return (int64_t)VL_EXTENDS_QQ(64, lbits, lhs) > (int64_t)VL_EXTENDS_QQ(64, lbits, rhs); }
static inline IData VL_LTS_III(int lbits, IData lhs, IData rhs) { return (int64_t)VL_EXTENDS_QQ(64, lbits, lhs) < (int64_t)VL_EXTENDS_QQ(64, lbits, rhs); }
static inline IData VL_GTES_III(int lbits, IData lhs, IData rhs) { return (int64_t)VL_EXTENDS_QQ(64, lbits, lhs) >= (int64_t)VL_EXTENDS_QQ(64, lbits, rhs); }
static inline IData VL_LTES_III(int lbits, IData lhs, IData rhs) { return (int64_t)VL_EXTENDS_QQ(64, lbits, lhs) <= (int64_t)VL_EXTENDS_QQ(64, lbits, rhs); }
static inline IData VL_SHIFTL_III(int obits, int lbits, int rbits, IData lhs, IData rhs) { (void)lbits; (void)rbits; if (rhs >= 32) return 0; IData m = (obits >= 32) ? 0xFFFFFFFFu : ((1u << obits) - 1u); return (lhs << rhs) & m; }
static inline IData VL_SHIFTR_III(int obits, int lbits, int rbits, IData lhs, IData rhs) { (void)obits; (void)lbits; (void)rbits; if (rhs >= 32) return 0; return lhs >> rhs; }
"""


def _strip_debug(s):
    s = re.sub(r"#ifdef VL_DEBUG\n.*?#endif[^\n]*\n", "", s, flags=re.S)
    return s


def _wrap_index(s, field, depth, counts):
    """X->field[e] -> X->field[VL_IDX(e, depth)] by bracket matching"""
    out = []
    i = 0
    pat = re.compile(r"(?:->|\.)%s\s*\[" % re.escape(field))
    while True:
        m = pat.search(s, i)
        if not m:
            out.append(s[i:])
            break
        lb = m.end() - 1
        rb = match_close(s, lb, "[", "]")
        out.append(s[i:lb + 1])
        out.append("VL_IDX(%s, %d)" % (s[lb + 1:rb], depth))
        counts[field] = counts.get(field, 0) + 1
        i = rb
    return "".join(out)


def verilate(sources, top, prefix, workdir, manifest, extra_args=(), with_prelude=True):
    """returns (C text, info). sources: paths relative to the repo."""
    mdir = os.path.join(workdir, "vl_" + prefix)
    os.makedirs(mdir, exist_ok=True)
    srcs = [os.path.join(hv.REPO, s) for s in sources]
    for s in srcs:
        if not os.path.exists(s):
            raise ExtractionError("RTL source missing: %s" % s)
    cmd = ["verilator", "--cc", "--top-module", top, "--prefix", prefix, "-Wno-fatal", "-Wno-lint", "--Mdir", mdir] + list(extra_args) + srcs
    rc, o, e, secs = hv.run(cmd, timeout=300)
    if rc != 0:
        raise ExtractionError("verilator failed on %s: %s" % (sources, (e or o)[-1500:]))
    info = {"unit": "verilator " + prefix, "sources": [{"file": s, "sha256": hashlib.sha256(open(p, "rb").read()).hexdigest()[:16]} for s, p in zip(sources, srcs)],
            "top": top, "secs": round(secs, 2), "rules": {}, "structs": {}, "arrays": {}}
    fired = info["rules"]

    def fire(name, n):
        fired[name] = fired.get(name, 0) + n

    # ---- headers -> structs
    hdrs = sorted(h for h in glob.glob(os.path.join(mdir, prefix + "_*.h")) if "__Dpi" not in h)
    structs = {}
    arrays = {}
    order = []
    for h in hdrs:
        s = open(h).read()
        m = re.search(r"class (\w+) final : public Verilated(Module|Syms) \{(.*?)\n\} VL_ATTR_ALIGNED", s, re.S)
        if not m:
            raise ExtractionError("verilator header %s: class not found" % os.path.basename(h))
        name, kind, body = m.group(1), m.group(2), m.group(3)
        lines = []
        for l in body.split("\n"):
            t = re.sub(r"\s*//.*$", "", l).strip()
            if not t or t == "public:":
                continue
            if re.match(r"(VerilatedMutex|VerilatedVcdC\*) \w+", t) or re.match(r"void _traceDump\w*\(\);", t):
                fire("drop trace-dumper member", 1)
                continue
            if re.match(r"~?%s\(" % re.escape(name), t) or t.startswith("VL_UNCOPYABLE") or t.startswith("void __Vconfigure") or t.startswith("const char* name()"):
                fire("drop ctor/dtor/method", 1)
                continue
            if "VerilatedScope" in t or "__Vm_modelp" in t:
                fire("drop scope/model pointer", 1)
                continue
            ma = re.match(r"VlUnpacked<(\w+)/\*[^*]*\*/, (\d+)> (\w+);", t)
            if ma and int(ma.group(2)) <= 64:
                lines.append("  %s %s[%s]; /* small VlUnpacked kept as an array */" % (ma.group(1), ma.group(3), ma.group(2)))
                fire("small VlUnpacked -> array", 1)
                continue
            if ma:
                arrays[(name, ma.group(3))] = int(ma.group(2))
                lines.append("  %s *%s; /* VlUnpacked<%s, %s> */" % (ma.group(1), ma.group(3), ma.group(1), ma.group(2)))
                fire("VlUnpacked -> pointer", 1)
                continue
            if "VlUnpacked" in t or "VlWide" in t:
                raise ExtractionError("verilator header %s: unsupported member %r" % (name, t))
            t2 = re.sub(r"VlTriggerVec<([1-8])>", r"VlTriggerVec\1", t)
            if t2 != t:
                fire("VlTriggerVec<N>", 1)
            t2 = re.sub(r"\* const vlSymsp;", "* vlSymsp;", t2)
            t2 = re.sub(r" = (false|0);", ";", t2)
            if not re.match(r"(VL_(IN|OUT)\d*\(\w+,\d+,\d+\);|(CData|SData|IData|QData)/\*[^*]*\*/ \w+;|VlTriggerVec[1-8] \w+;|\w+\* \w+;|\w+\s+\w+;|bool \w+;|uint32_t \w+;|(CData|SData|IData|QData) \w+\[\d+\]; /\*.*\*/)$", t2):
                raise ExtractionError("verilator header %s: member not understood: %r" % (name, t))
            lines.append("  " + t2)
        structs[name] = lines
        order.append((kind == "Syms", name))
        info["structs"][name] = len(lines)
    out = [PRELUDE] if with_prelude else []
    for _, n in order:
        out.append("typedef struct %s %s;" % (n, n))
    for _, n in sorted(order):
        out.append("struct %s {\n%s\n};" % (n, "\n".join(structs[n])))
    for (cn, fn), d in arrays.items():
        out.append("#define %s_%s_DEPTH %d" % (cn, fn, d))
        info["arrays"]["%s.%s" % (cn, fn)] = d

    # ---- implementation files
    cpps = sorted(glob.glob(os.path.join(mdir, prefix + "_*__DepSet_*.cpp")))
    if not cpps:
        raise ExtractionError("verilator produced no DepSet files")
    idxcounts = {}
    for c in cpps:
        s = open(c).read()
        s, n = re.subn(r'#include "[^"]*"\n', "", s)
        fire("#include", n)
        s2 = _strip_debug(s)
        fire("VL_DEBUG block", s.count("#ifdef VL_DEBUG"))
        s = s2
        # $test$plusargs block (VCD set-up only)
        while True:
            m = re.search(r"if \(VL_UNLIKELY\(\(0U != VL_TESTPLUSARGS_I\(", s)
            if not m:
                break
            ip = s.index("(", m.start())
            lb = s.index("{", match_close(s, ip, "(", ")"))
            rb = match_close(s, lb)
            s = s[:m.start()] + "/* $test$plusargs block dropped (VCD set-up only) */" + s[rb + 1:]
            fire("$test$plusargs block", 1)
        s, n = re.subn(r"\n\s*VlWide<\d+>/\*[^*]*\*/ \w+;", "", s)
        fire("unused VlWide temp", n)
        for pat, rep, nm in [
            (r"(\w+)\.at\((\w+)\)", r"\1.m_flags[\2]", ".at()"),
            (r"([\w>\-]+)\.any\(\)", r"VL_TV_ANY(\1)", ".any()"),
            (r"([\w>\-]+)\.clear\(\);", r"{\n#define VL_E_(k) 0\n VL_TV_ALL(\1, VL_E_);\n#undef VL_E_\n}", ".clear()"),
            (r"([\w>\-]+)\.set\(([\w>\-]+)\);", r"{\n#define VL_E_(k) (VL_TV_F(\1, k) || VL_TV_F(\2, k))\n VL_TV_ALL(\1, VL_E_);\n#undef VL_E_\n}", ".set()"),
            (r"([\w>\-]+)\.andNot\(([\w>\-]+), ([\w>\-]+)\);", r"{\n#define VL_E_(k) (VL_TV_F(\2, k) && !VL_TV_F(\3, k))\n VL_TV_ALL(\1, VL_E_);\n#undef VL_E_\n}", ".andNot()"),
            (r"VlTriggerVec<([1-8])>", r"VlTriggerVec\1", "VlTriggerVec<N>"),
            (r"for \(int (\w+) = 0; \1 < (\d+); \+\+\1\) \{\s*vlSelf->(\w+)\[\1\] = VL_RAND_RESET_I\(\d+\);\s*\}", r"VL_HAVOC_ARRAY(vlSelf->\3, \2);", "array reset loop"),
        ]:
            s, n = re.subn(pat, rep, s)
            fire(nm, n)
        # small constant-bound initialisation loops (e.g. __Vm_traceActivity) become straight-line code
        def _unroll(m):
            n = int(m.group(2))
            if n > 64:
                return m.group(0)
            fire("small init loop unrolled", 1)
            return " ".join("vlSelf->%s[%d] = %s;" % (m.group(3), k, m.group(4)) for k in range(n))
        s = re.sub(r"for \(int (\w+) = 0; \1 < (\d+); \+\+\1\) \{\s*vlSelf->(\w+)\[\1\] = ([\w()]+);\s*\}", _unroll, s)
        for (cn, fn), d in arrays.items():
            s = _wrap_index(s, fn, d, idxcounts)
        if re.search(r"std::|VlWide|VL_CVT_PACK|VL_WRITEF|VL_PRINTF|Verilated::", s):
            m = re.search(r"std::|VlWide|VL_CVT_PACK|VL_WRITEF|VL_PRINTF|Verilated::", s)
            raise ExtractionError("verilator output %s: unsupported construct near %r" % (os.path.basename(c), s[max(0, m.start() - 60):m.end() + 60]))
        out.append("/* ---- %s ---- */" % os.path.basename(c))
        out.append(s)
    info["index_wraps"] = idxcounts
    for (cn, fn), d in arrays.items():
        if idxcounts.get(fn, 0) < 1:
            raise ExtractionError("array %s.%s never indexed in generated code" % (cn, fn))

    # ---- <prefix>::eval_step()
    s = open(os.path.join(mdir, prefix + ".cpp")).read()
    m = re.search(r"void %s::eval_step\(\) \{" % re.escape(prefix), s)
    if not m:
        raise ExtractionError("eval_step not found in %s.cpp" % prefix)
    lb = m.end() - 1
    rb = match_close(s, lb)
    body = _strip_debug(s[lb:rb + 1])
    for pat, nm, mn in [(r"\n\s*Verilated::mtaskId\(0\);", "Verilated::mtaskId", 1), (r"\n\s*Verilated::endOfThreadMTask\([^;]*\);", "endOfThreadMTask", 1),
                        (r"\n\s*Verilated::endOfEval\([^;]*\);", "endOfEval", 1)]:
        body, n = re.subn(pat, "", body)
        fire(nm, n)
        if n < mn:
            raise ExtractionError("eval_step: rule %s did not fire" % nm)
    if "Verilated::" in body:
        raise ExtractionError("eval_step: unexpected Verilated:: call left: %r" % body)
    decls = re.findall(r"\nvoid (%s___024root___eval\w*)\(%s___024root\* vlSelf\);" % (prefix, prefix), s)
    out.append("/* ---- %s.cpp: eval_step ---- */" % prefix)
    for d in sorted(set(decls)):
        out.append("void %s(%s___024root* vlSelf);" % (d, prefix))
    out.append("void %s_eval_step(%s__Syms *vlSymsp) %s" % (prefix, prefix, body))
    text = "\n".join(out)
    info["members"] = {n: [re.sub(r"/\*.*?\*/", "", l).strip().rstrip(";") for l in structs[n]] for n in structs}
    info["ctor_var_reset"] = sorted(set(re.findall(r"void (%s_\w+___ctor_var_reset)\(" % prefix, text)))
    info["sha256"] = hashlib.sha256(text.encode()).hexdigest()[:16]
    manifest.append(info)
    return text, info

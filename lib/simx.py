"""simx -- mechanical extraction of hexsim.hpp / hexsimio.hpp (single-instance classes) into C.

Class fields become file-scope globals (one Processor instance), methods become functions with the
bodies copied verbatim and passed through counted rewrite rules.  `memory[e]` accesses are turned
into RD(e) / WR(e, v) by bracket matching so that the harness chooses the representation of the one
flat memory array (symbolic-size object, or banked for image execution) and asserts e < N.
"""
import re
from hv import Source, rewrite, strip_comments, ExtractionError, leftover_check, match_close

ENUM_RULES = [
    (r"hex::Instr::", "", 0), (r"hex::OprInstr::", "", 0), (r"hex::Syscall::", "SC_", 0),
    (r"static_cast<hex::Instr>\(", "(Instr)(", 0), (r"static_cast<hex::OprInstr>\(", "(OprInstr)(", 0),
    (r"static_cast<hex::Syscall>\(", "(Syscall)(", 0),
    (r"static_cast<(size_t|uint32_t|uint64_t|int32_t|int64_t|int|unsigned|long|unsigned long|char|unsigned char|uint8_t)>\(", r"(\1)(", 0),
    (r"\bmemory\.size\(\)", "((size_t)MEMORY_SIZE_WORDS)", 0),   # std::array<uint32_t, MEMORY_SIZE_WORDS>::size()
    (r"std::to_string\(([^()]*)\)", r"((void)(\1), 0)", 0),        # text of an error message: evaluated, not rendered
]


def rewrite_memory(t, counts):
    """memory[e] -> RD(e); memory[e] = v; -> WR(e, v);  (innermost first)"""
    out = []
    i = 0
    pat = re.compile(r"\bmemory\[")
    while True:
        m = pat.search(t, i)
        if not m:
            out.append(t[i:])
            break
        out.append(t[i:m.start()])
        lb = m.end() - 1
        rb = match_close(t, lb, "[", "]")
        inner = rewrite_memory(t[lb + 1:rb], counts)
        j = rb + 1
        k = j
        while k < len(t) and t[k] in " \t":
            k += 1
        if k < len(t) and t[k] == "=" and t[k + 1] != "=":
            # a store: up to the terminating ';' at depth 0
            d = 0
            e = k + 1
            while e < len(t):
                c = t[e]
                if c in "([{":
                    d += 1
                elif c in ")]}":
                    d -= 1
                elif c == ";" and d == 0:
                    break
                e += 1
            if e >= len(t):
                raise ExtractionError("memory store without terminating ';'")
            rhs = rewrite_memory(t[k + 1:e].strip(), counts)
            out.append("WR(%s, %s)" % (inner, rhs))
            counts["WR"] = counts.get("WR", 0) + 1
            i = e
        else:
            out.append("RD(%s)" % inner)
            counts["RD"] = counts.get("RD", 0) + 1
            i = j
    return "".join(out)


SCALAR_TYPES = {"uint32_t": "uint32_t", "bool": "bool", "int": "int", "size_t": "size_t", "unsigned": "unsigned", "hex::Instr": "Instr"}


def fields(manifest):
    """member declarations of hexsim::Processor -> C globals. Unknown member types abort."""
    src = Source("hexsim.hpp", manifest)
    a, e = src.anchor(r"class Processor \{")
    pub = src.text.index("public:", e)
    region = strip_comments(src.text[e:pub])
    region = re.sub(r"#ifdef HEX_VERIF\b.*?#endif", "", region, flags=re.S)  # the verification hook itself
    # drop the private method lookupSymbol from the region (a {...} block)
    m = re.search(r"const char \*lookupSymbol\(\) \{", region)
    if m:
        j = match_close(region, m.end() - 1)
        region = region[:m.start()] + region[j + 1:]
    # other small member functions defined here (helpers the loop body may call): scalar parameters and result only;
    # they become C functions placed after the memory accessors (names["__helpers__"])
    helpers = []
    while True:
        mh = re.search(r"(?:static |inline )*([\w:]+) (\w+)\(([^()]*)\)\s*(?:const\s*)?\{", region)
        if not mh:
            break
        hb = match_close(region, mh.end() - 1)
        ret, hname, params, body = mh.group(1), mh.group(2), mh.group(3), region[mh.end() - 1:hb + 1]
        region = region[:mh.start()] + region[hb + 1:]
        if ret not in SCALAR_TYPES:
            raise ExtractionError("hexsim::Processor::%s: return type %s not understood" % (hname, ret))
        ps = []
        for prm in [x.strip() for x in params.split(",") if x.strip()]:
            mp = re.fullmatch(r"(?:const )?([\w:]+) (\w+)", prm)
            if not mp or mp.group(1) not in SCALAR_TYPES:
                raise ExtractionError("hexsim::Processor::%s: parameter %r not understood" % (hname, prm))
            ps.append("%s %s" % (SCALAR_TYPES[mp.group(1)], mp.group(2)))
        c = {}
        body = rewrite_memory(rewrite(body, ENUM_RULES, "Processor::" + hname, manifest), c)
        leftover_check(body, hname)
        helpers.append("static %s %s(%s) %s\n" % (SCALAR_TYPES[ret], hname, ", ".join(ps) or "void", body))
    decls0 = [" ".join(d.split()) for d in region.split(";") if d.strip()]
    decls = []
    for d in decls0:
        # `uint32_t a, b` / `unsigned a = 0, b = 0`: one declaration per declarator (scalar types only)
        md = re.fullmatch(r"([\w:]+) (\w+(?: = [\w~ ]+)?(?:, \w+(?: = [\w~ ]+)?)+)", d)
        if md and md.group(1) in SCALAR_TYPES:
            decls += ["%s %s" % (md.group(1), x.strip()) for x in md.group(2).split(",")]
        else:
            decls.append(d)
    out = []
    names = {}
    defaults = {}
    for d in decls:
        m = re.fullmatch(r"static const size_t MEMORY_SIZE_WORDS = hex::MAX_MEMORY_SIZE_WORDS", d)
        if m:
            out.append("#define MEMORY_SIZE_WORDS MAX_MEMORY_SIZE_WORDS")
            continue
        m = re.fullmatch(r"std::array<uint32_t, MEMORY_SIZE_WORDS> memory", d)
        if m:
            names["memory"] = "memory"
            continue  # representation supplied by the harness through RD/WR
        if d in ("hex::HexSimIO io", "std::ostream &out"):
            names[d.split()[-1].lstrip("&")] = "dropped"
            continue
        if d == "std::vector<std::pair<std::string, unsigned>> debugInfo":
            out.append("typedef struct { int first; /* symbol name as an opaque id */ unsigned second; } DebugEntry;")
            out.append("DebugEntry *debugInfo; size_t debugInfo_size;")
            names["debugInfo"] = "vector"
            continue
        if d == "std::map<std::string, unsigned> debugInfoMap":
            names["debugInfoMap"] = "dropped"
            continue
        m = re.fullmatch(r"([\w:]+) (\w+)(?: = ([\w~ ]+)|\{([\w~ ]*)\})?", d)
        if m and m.group(1) in SCALAR_TYPES:
            out.append("%s %s;" % (SCALAR_TYPES[m.group(1)], m.group(2)))
            names[m.group(2)] = SCALAR_TYPES[m.group(1)]
            if m.group(3) is not None or m.group(4) is not None:
                defaults[m.group(2)] = (m.group(3) if m.group(3) is not None else (m.group(4).strip() or "0")).replace("~0U", "~0u")
            continue
        raise ExtractionError("hexsim::Processor: member declaration not understood: %r" % d)
    for need in ("pc", "areg", "breg", "oreg", "instr", "memory", "running", "tracing", "exitCode", "lastPC", "cycles", "maxCycles", "instrEnum", "truncateInputs"):
        if need not in names:
            raise ExtractionError("hexsim::Processor: member %s not found" % need)
    manifest.append({"unit": "Processor fields", "fields": names, "default_member_initialisers": defaults})
    names["__defaults__"] = defaults
    names["__helpers__"] = "".join(helpers)
    if helpers:
        manifest.append({"unit": "Processor helper member functions", "functions": [re.search(r"static \w+ (\w+)\(", h).group(1) for h in helpers]})
    return "\n".join(out) + "\n", names


CTOR_BODY = ""


def ctor_items(manifest):
    """[(member, initialiser text)] of the constructor's mem-initialiser list"""
    src = Source("hexsim.hpp", manifest)
    a, e = src.anchor(r"Processor\(std::istream &in, std::ostream &out, size_t maxCycles=0\) :")
    lb = src.text.index("{", e)
    # the body's opening brace is the first `{` that is not the brace of a braced member initialiser `name{...}`
    while re.search(r"\w\s*$", src.text[e:lb]) and not re.search(r"\)\s*$", src.text[e:lb]):
        lb = src.text.index("{", match_close(src.text, lb) + 1)
    rb = match_close(src.text, lb)
    global CTOR_BODY
    CTOR_BODY = strip_comments(src.text[lb + 1:rb]).strip()
    t = strip_comments(src.text[e:lb])
    items = []
    i = 0
    while i < len(t):
        m = re.match(r"\s*,?\s*(\w+)([({])", t[i:])
        if not m:
            if t[i:].strip() in ("", ","):
                break
            raise ExtractionError("ctor init list: cannot parse at %r" % t[i:i + 40])
        name = m.group(1)
        lp = i + m.end() - 1
        rp = match_close(t, lp, m.group(2), ")" if m.group(2) == "(" else "}")
        items.append((name, t[lp + 1:rp].strip()))
        i = rp + 1
    return items


def ctor_inits(manifest):
    """the constructor's mem-initialiser list as C assignments; members not mentioned are NOT assigned."""
    items = ctor_items(manifest)
    asg = []
    inited = []
    for n, v in items:
        if n in ("io", "out"):
            continue
        if n == "maxCycles":
            asg.append("maxCycles = maxCycles_arg;")
        elif n == "memory":
            if v not in ("", "{}"):
                raise ExtractionError("ctor init memory(%s): only value-initialisation understood" % v)
            asg.append("MEM_ZERO(); /* std::array value-initialisation: every word zero */")
        else:
            if not re.fullmatch(r"[\w ]+", v):
                raise ExtractionError("ctor init %s(%s): unexpected initialiser" % (n, v))
            asg.append("%s = %s;" % (n, v))
        inited.append(n)
    # constructor body: only whole-array clears of `memory` are understood
    for st in [x.strip() for x in CTOR_BODY.split(";") if x.strip()]:
        st = " ".join(st.split())
        mb = re.fullmatch(r"std::memset\(memory\.data\(\), 0, ([\w\s*()]+)\)", st)
        if mb:
            n = mb.group(1).replace("sizeof(memory)", "(4 * (size_t)MEMORY_SIZE_WORDS)").replace("sizeof(uint32_t)", "4")
            if not re.fullmatch(r"[\w\s*()]+", n) or re.search(r"[A-Za-z_]\w*", n.replace("MEMORY_SIZE_WORDS", "").replace("size_t", "")):
                raise ExtractionError("ctor body: memset size %r not understood" % mb.group(1))
            asg.append("MEM_ZERO_BYTES(%s); /* std::memset(memory.data(), 0, %s) */" % (n, mb.group(1)))
            inited.append("memory")
        elif st in ("memory.fill(0)", "memory.fill(0u)", "memory.fill(0U)"):
            asg.append("MEM_ZERO(); /* memory.fill(0) */")
            inited.append("memory")
        else:
            raise ExtractionError("ctor body: statement not understood: %r" % st)
    manifest.append({"unit": "Processor ctor", "initialised": inited, "body": CTOR_BODY})
    return "static void Processor_ctor(size_t maxCycles_arg) {\n  " + "\n  ".join(asg) + "\n}\n", inited


def io_fns(manifest):
    src = Source("hexsimio.hpp", manifest)
    out = ["bool connected[8];"]
    # constructor initialises connected[] to false x8
    ci = src.span(r"connected\(\{([^}]*)\}\)", "HexSimIO ctor connected init", 1)
    vals = [v.strip() for v in ci.split(",")]
    if len(vals) != 8 or any(v not in ("false", "true") for v in vals):
        raise ExtractionError("HexSimIO ctor: connected initialiser not 8 booleans: %r" % ci)
    out.append("static void HexSimIO_ctor(void) { %s }" % " ".join("connected[%d] = %s;" % (i, v) for i, v in enumerate(vals)))
    b, _, _ = src.block_after(r"void output\(char value, int stream\) \{", "HexSimIO::output")
    b = rewrite(b, [
        (r"out << value;", "EV_STDOUT(value);", 1, 1),
        (r"fileIO\[index\]\.open\(std::string\(\"(\w+)\"\)\s*\+\s*std::to_string\(index\),\s*std::fstream::(\w+)\);", r'EV_OPEN("\1", index, OPEN_\2);', 1, 1),
        (r"fileIO\[index\]\.put\(value\);", "EV_FILE_PUT(index, value);", 1, 1),
    ], "HexSimIO::output", manifest)
    leftover_check(b, "HexSimIO::output")
    out.append("static void io_output(char value, int stream) " + b)
    rt = src.span(r"\n\s*(\w+) input\(int stream\) \{", "HexSimIO::input return type", 1)
    b, _, _ = src.block_after(r"\w+ input\(int stream\) \{", "HexSimIO::input")
    b = rewrite(b, [
        (r"return in\.get\(\);", "return EV_STDIN_GET();", 1, 1),
        (r"fileIO\[index\]\.open\(std::string\(\"(\w+)\"\)\s*\+\s*std::to_string\(index\),\s*std::fstream::(\w+)\);", r'EV_OPEN("\1", index, OPEN_\2);', 1, 1),
        (r"return fileIO\[index\]\.get\(\);", "return EV_FILE_GET(index);", 1, 1),
    ], "HexSimIO::input", manifest)
    leftover_check(b, "HexSimIO::input")
    out.append("static %s io_input(int stream) %s" % (rt, b))
    return "\n".join(out) + "\n", rt


def syscall_fn(manifest, input_type):
    src = Source("hexsim.hpp", manifest)
    b, _, _ = src.block_after(r"void syscall\(\) \{", "Processor::syscall")
    b = rewrite(b, ENUM_RULES + [
        (r"throw std::runtime_error\([^;]*\);", "{ VERIF_THROW(0); return; }", 1, 1),
        (r"io\.output\(", "io_output(", 1, 1), (r"io\.input\(", "io_input(", 1, 1),
        (r"\bauto value\b", "%s value" % input_type, 1, 1),
    ], "Processor::syscall", manifest)
    c = {}
    b = rewrite_memory(b, c)
    if c.get("RD", 0) < 5 or c.get("WR", 0) < 1:
        raise ExtractionError("syscall: expected >=5 memory reads and >=1 store, found %s" % c)
    manifest.append({"unit": "Processor::syscall", "memory_accesses": c})
    leftover_check(b, "syscall")
    return "static void syscall(void) " + b + "\n"


def run_parts(manifest):
    """(loop condition text, loop body as step(), value returned after the loop)"""
    src = Source("hexsim.hpp", manifest)
    run, i0, _ = src.block_after(r"int run\(\) \{", "Processor::run")
    # the loop: `while (<condition>) {` -- the condition is taken as it is (run_loop.contract states what it must mean)
    m = re.search(r"\bwhile \(", run)
    if not m or len(re.findall(r"\bwhile \(", run)) != 1 or re.search(r"\bfor \(|\bdo \{", run):
        raise ExtractionError("run(): expected exactly one loop, `while (<condition>) {`")
    cp = match_close(run, m.end() - 1, "(", ")")
    cond = " ".join(run[m.end():cp].split())
    leftover_check(cond, "run() loop condition")
    if not re.match(r"\s*\{", run[cp + 1:]):
        raise ExtractionError("run(): loop body is not a block")
    lb = run.index("{", cp)
    rb = match_close(run, lb)
    body = run[lb:rb + 1]
    tail = strip_comments(run[rb + 1:]).strip().rstrip("}").strip()
    mt = re.fullmatch(r"return (\w+);", tail)
    if not mt:
        raise ExtractionError("run(): expected a single `return <member>;` after the loop, found %r" % tail)
    head = strip_comments(run[1:m.start()]).strip()
    # scalar locals of run() declared before the loop are loop-carried state of the interpreter that the architecture does
    # not have: they become globals of the unit, set by run_prologue(); harnesses that start at an arbitrary iteration
    # must treat them as arbitrary (run_locals_havoc) -- see simunit.hidden_state()
    run_locals = []
    for d in [x.strip() for x in head.split(";") if x.strip()]:
        d = " ".join(d.split())
        md = re.fullmatch(r"(?:const )?(bool|int|unsigned|uint64_t|uint32_t|uint8_t|size_t) (\w+) = ([^;{}]+)", d)
        if not md:
            raise ExtractionError("run(): unexpected statement before the loop: %r" % d)
        init = rewrite(md.group(3), [(r"~0U\b", "~0u", 0)], "run() local initialiser", manifest)
        run_locals.append((md.group(1), md.group(2), init))
    body = rewrite(body, ENUM_RULES + [
        (r"throw std::runtime_error\([^;]*\);", "{ VERIF_THROW(0); return; }", 2),
    ], "Processor::run loop body", manifest)
    c = {}
    body = rewrite_memory(body, c)
    if c.get("RD", 0) < 3 or c.get("WR", 0) < 2:   # sanity only (LDAM/LDBM/LDAI/LDBI reads, STAM/STAI stores; the fetch may live in a helper)
        raise ExtractionError("run() body: expected >=3 memory reads and >=2 stores, found %s" % c)
    manifest.append({"unit": "Processor::run loop body", "memory_accesses": c, "loop_condition": cond, "returns": mt.group(1),
                     "loop_carried_locals": [n for _, n, _ in run_locals]})
    leftover_check(body, "step")
    pre = "".join("static %s %s; /* local of run(), loop-carried */\n" % (ty, n) for ty, n, _ in run_locals)
    pre += "static void run_prologue(void) {%s }\n" % "".join(" %s = %s;" % (n, i) for _, n, i in run_locals)
    pre += "#ifdef HEX_CBMC\n" + "".join("%s nondet_local_%s(void);\n" % (ty, n) for ty, n, _ in run_locals)
    pre += "static void run_locals_havoc(void) {%s }\n#endif\n" % "".join(" %s = nondet_local_%s();" % (n, n) for _, n, _ in run_locals)
    return cond, pre + "static void step(void) " + body + "\n", mt.group(1)


def _split_top(s, sep):
    parts = []
    d = 0
    cur = []
    i = 0
    while i < len(s):
        c = s[i]
        if c == '"':
            j = i + 1
            while s[j] != '"':
                j += 2 if s[j] == "\\" else 1
            cur.append(s[i:j + 1])
            i = j + 1
            continue
        if c in "([{":
            d += 1
        elif c in ")]}":
            d -= 1
        if c == sep and d == 0:
            parts.append("".join(cur))
            cur = []
        else:
            cur.append(c)
        i += 1
    parts.append("".join(cur))
    return parts


def rewrite_format_streams(t, counts):
    """`out << boost::format(F) % a % b ...;` -> `EV_FMT(F, n); EV_ARG(a); ...` (argument evaluation kept,
    rendering dropped)."""
    pat = re.compile(r"out << boost::format\(")
    res = []
    i = 0
    while True:
        m = pat.search(t, i)
        if not m:
            res.append(t[i:])
            break
        res.append(t[i:m.start()])
        lp = m.end() - 1
        rp = match_close(t, lp, "(", ")")
        fmt = t[lp + 1:rp].strip()
        e = t.index(";", rp)
        # arguments may contain ';'? no: find statement end at depth 0
        d = 0
        e = rp + 1
        while True:
            c = t[e]
            if c in "([{":
                d += 1
            elif c in ")]}":
                d -= 1
            elif c == ";" and d == 0:
                break
            e += 1
        args = [a.strip() for a in _split_top(t[rp + 1:e], "%")[1:]]
        # boost::format's documented behaviour: streaming a format object that was fed fewer or more arguments than it
        # has directives throws (too_few_args / too_many_args).  The directive count of a literal format string is known here.
        mlit = re.fullmatch(r'"((?:[^"\\]|\\.)*)"', fmt)
        arity_ok = True
        if mlit:
            ndir = len(re.findall(r"%(?!%)[-#0 +]*\d*(?:\.\d+)?[a-zA-Z]", mlit.group(1).replace("%%", "")))
            arity_ok = ndir == len(args)
            counts.setdefault("fmt_arity", []).append((ndir, len(args)))
        # a precision on a string directive (`%-12.12s`) cuts the rendered column to that many characters: the column then no
        # longer shows the argument (the arguments themselves are what the ghost log records)
        trunc = bool(mlit and re.search(r"%(?!%)[-#0 +]*\d*\.\d+s", mlit.group(1).replace("%%", "")))
        if trunc:
            counts["fmt_truncating"] = counts.get("fmt_truncating", 0) + 1
        ghost = []
        for a in args:
            ms = re.fullmatch(r"SYMINFO\((\w+), (\w+)\)", a)
            ghost += [ms.group(1), ms.group(2)] if ms else [a]
        res.append("{ EV_FMT(%s, %d); %s%s%s }" % (fmt, len(ghost), "EV_TRUNCATES(); " if trunc else "", " ".join("EV_ARG(%s);" % a for a in ghost),
                                                "" if arity_ok else " { VERIF_THROW(0); return; } /* boost::format: argument count differs from the directive count: throws */"))
        counts["fmt"] = counts.get("fmt", 0) + 1
        i = e + 1
    return "".join(res)


def trace_fns(manifest):
    """trace() and traceSyscall(): all text output reduced to EV_FMT/EV_ARG ghost calls"""
    src = Source("hexsim.hpp", manifest)
    out = []
    b, _, _ = src.block_after(r"void traceSyscall\(\) \{", "Processor::traceSyscall")
    c = {}
    b = rewrite_format_streams(b, c)
    b = rewrite(b, ENUM_RULES, "traceSyscall", manifest)
    b = rewrite_memory(b, c)
    if c.get("fmt", 0) < 3:
        raise ExtractionError("traceSyscall: expected >=3 format statements, found %s" % c)
    leftover_check(b, "traceSyscall")
    manifest.append({"unit": "Processor::traceSyscall", "rewritten": c})
    out.append("static void traceSyscall(void) " + b)
    b, _, _ = src.block_after(r"void trace\(uint32_t instr, hex::Instr instrEnum\) \{", "Processor::trace")
    c = {}
    # the symbol prefix: keep the arithmetic, drop the string rendering
    b = rewrite(b, [
        (r"if \(debugInfo\.size\(\)\) \{", "if (debugInfo_size) {", 1, 1),
        (r"auto symbolName = lookupSymbol\(\);", "const DebugEntry *symbolName = lookupSymbol();", 1, 1),
        (r"std::string symbolInfo;", "int symbolInfo_name = -1; uint32_t symbolInfo_offset = 0; /* std::string symbolInfo */", 1, 1),
        (r"auto symbolOffset = lastPC - debugInfoMap\[symbolName\];", "uint32_t symbolOffset = lastPC - debugInfoMap_lookup(symbolName);", 1, 1),
        (r"symbolInfo = \(boost::format\(\"%s\+%d\"\) % symbolName % symbolOffset\)\.str\(\);",
         "symbolInfo_name = symbolName->first; symbolInfo_offset = symbolOffset; /* \"%s+%d\" */", 1, 1),
        (r"% symbolInfo %", "% SYMINFO(symbolInfo_name, symbolInfo_offset) %", 1, 1),  # one boost argument (the rendered string), two ghost values
        (r"instrEnumToStr\(instrEnum\)", "instrEnum", 2, 2),
    ], "trace prefix", manifest)
    b = rewrite_format_streams(b, c)
    b = rewrite(b, ENUM_RULES, "trace", manifest)
    b = rewrite_memory(b, c)
    if c.get("fmt", 0) < 18:
        raise ExtractionError("trace: expected >=18 format statements, found %s" % c)
    leftover_check(b, "trace")
    manifest.append({"unit": "Processor::trace", "rewritten": c})
    out.append("static void trace(uint32_t instr, Instr instrEnum) " + b)
    return "\n".join(out) + "\n"


LOOKUP_CONTRACT = """
/* table is non-empty when called (trace() guards with debugInfo.size()) */
__CPROVER_requires(debugInfo_size >= 1 && debugInfo_size <= 1000000)
__CPROVER_requires(__CPROVER_is_fresh(debugInfo, debugInfo_size * sizeof(DebugEntry)))
/* below the first entry: no symbol */
__CPROVER_ensures((__CPROVER_return_value == NULL) == (lastPC < debugInfo[0].second))
/* otherwise: an entry idx with offset(idx) <= pc, and pc < offset(idx+1) unless idx is the last */
__CPROVER_ensures(__CPROVER_return_value == NULL || (g_lookup_idx < debugInfo_size && __CPROVER_return_value == &debugInfo[g_lookup_idx] &&
                  debugInfo[g_lookup_idx].second <= lastPC &&
                  (g_lookup_idx == debugInfo_size - 1 || lastPC < debugInfo[g_lookup_idx + 1].second)))
__CPROVER_assigns(g_lookup_idx)
"""


def lookupSymbol_fn(manifest, with_contract=True):
    src = Source("hexsim.hpp", manifest)
    b, _, _ = src.block_after(r"const char \*lookupSymbol\(\) \{", "Processor::lookupSymbol")
    loop = ("for (size_t i=0; i<debugInfo_size; i++)\n"
            "    __CPROVER_assigns(i)\n"
            "    __CPROVER_loop_invariant(i < debugInfo_size && lastPC >= debugInfo[i].second)\n"
            "    __CPROVER_decreases(debugInfo_size - i)\n  {")
    rules = [
        (r"debugInfo\.size\(\)", "debugInfo_size", 1),
        (r"return debugInfo\[i\]\.first\.c_str\(\);", "{ g_lookup_idx = i; return &debugInfo[i]; }", 2, 2),
        (r"return nullptr;", "return NULL;", 2, 2),
    ]
    if with_contract:
        rules.append((r"for \(size_t i=0; i<debugInfo_size; i\+\+\) \{", loop, 1, 1))
    b = rewrite(b, rules, "lookupSymbol", manifest)
    leftover_check(b, "lookupSymbol")
    return "size_t g_lookup_idx;\nstatic const DebugEntry *lookupSymbol(void)" + (LOOKUP_CONTRACT if with_contract else "\n") + b + "\n"


def load_fn(manifest):
    """Processor::load -> load_image() (header arithmetic + copy extent) and load_debug() (symbol table reader).
    File operations become FILE_* stubs over a ghost byte buffer; the dumpContents printing is dropped."""
    src = Source("hexsim.hpp", manifest)
    b, _, _ = src.block_after(r"void load\(const char \*filename, bool dumpContents=false\) \{", "Processor::load")
    m = re.search(r"// Read debug data \(if present\)\.\s*if \(remainingFileSize > programSize\) \{", b)
    if not m:
        raise ExtractionError("load(): debug-data anchor not found")
    head = b[1:m.start()]
    lb = m.end() - 1
    rb = match_close(b, lb)
    dbg = b[lb:rb + 1]
    tail = b[rb + 1:]
    if not re.search(r"if \(dumpContents\) \{", tail):
        raise ExtractionError("load(): expected only the dumpContents block after the debug-data block")
    head = rewrite(head, [
        (r"std::streampos fileSize;", "long fileSize;", 1, 1),
        (r"std::ifstream file\(filename, std::ios::binary\);", "FILE_OPEN();", 1, 1),
        (r"file\.seekg\(0, std::ios::(?:end|beg)\);", ";", 2, 2),
        (r"fileSize = file\.tellg\(\);", "fileSize = FILE_SIZE();", 1, 1),
        (r"static_cast<unsigned>\(fileSize\)", "(unsigned)(fileSize)", 1, 1),
        (r"file\.read\(reinterpret_cast<char\*>\(&programSize\), 4\);", "FILE_READ_U32(&programSize);", 1, 1),
        (r"file\.read\(reinterpret_cast<char\*>\(memory\.data\(\)\), programSize\);", "FILE_READ_MEM(programSize);", 1, 1),
    ], "load (image part)", manifest)
    leftover_check(head, "load_image")
    out = ["static unsigned ld_remainingFileSize, ld_programSize;",
           "static void load_image(void) {" + head + "  ld_remainingFileSize = remainingFileSize; ld_programSize = programSize;\n}"]
    dbg = rewrite(dbg, [
        (r"file\.read\(reinterpret_cast<char\*>\(&(\w+)\), sizeof\(uint32_t\)\);", r"FILE_READ_U32(&\1);", 4, 4),
        (r"std::vector<std::string> strings;", "/* std::vector<std::string> strings: names are opaque ids */", 1, 1),
        (r"for \(size_t i=0; i<numStrings; i\+\+\) \{\s*char c = file\.get\(\);\s*std::string s;\s*while \(c != '\\0'\) \{\s*s \+= c;\s*c = file\.get\(\);\s*\}\s*strings\.push_back\(s\);\s*\}",
         "FILE_READ_STRINGS(numStrings);", 1, 1),
        (r"debugInfo\.push_back\(std::make_pair\(strings\[strIndex\], byteOffset\)\);", "DEBUGINFO_PUSH(STRINGS_AT(strIndex), byteOffset);", 1, 1),
        (r"debugInfoMap\[strings\[strIndex\]\] = byteOffset;", "DEBUGMAP_SET(STRINGS_AT(strIndex), byteOffset);", 1, 1),
    ], "load (debug part)", manifest)
    leftover_check(dbg, "load_debug")
    out.append("static void load_debug(void) " + dbg)
    manifest.append({"unit": "Processor::load", "dropped": ["dumpContents printing block", "string contents (names -> ids)", "stream error states"]})
    return "\n".join(out) + "\n"


def load_debug_parts(manifest):
    """the symbol-table reader of Processor::load: statements before the symbol loop and the loop body.
    Structure text-matched (strings loop already abstracted to FILE_READ_STRINGS)."""
    t = load_fn(manifest)
    i = t.index("static void load_debug(void) ")
    body = t[i + len("static void load_debug(void) "):]
    m = re.search(r"for \(size_t i=0; i<numSymbols; i\+\+\) \{", body)
    if not m:
        raise ExtractionError("load(): symbol loop not found")
    lb = m.end() - 1
    rb = match_close(body, lb)
    loop_body = body[lb:rb + 1]
    skeleton = " ".join(strip_comments(body[:m.start()] + "LOOP;" + body[rb + 1:]).split())
    want = "{ uint32_t numStrings; FILE_READ_U32(&numStrings); FILE_READ_STRINGS(numStrings); uint32_t numSymbols; FILE_READ_U32(&numSymbols); LOOP; }"
    if skeleton != want:
        raise ExtractionError("load(): debug-table reader differs from the structure the round-trip lemma was written for:\n found %s\n expected %s" % (skeleton, want))
    manifest.append({"unit": "Processor::load debug reader structure", "text": skeleton})
    return "static void dbg_load_symbol_body(void) " + loop_body + "\n"


STR_READ_LOOP_CONTRACT = (
    "\n    __CPROVER_assigns(file_pos, c, s_len, __CPROVER_object_whole(s_buf))\n"
    "    __CPROVER_loop_invariant(file_pos >= 1 && file_pos - 1 <= str_nul_at && s_len < STR_MAX)\n"
    "    __CPROVER_loop_invariant(s_len == file_pos - __CPROVER_loop_entry(file_pos))\n"
    "    __CPROVER_loop_invariant(c == FILE_BYTE(file_pos - 1))\n"
    "    __CPROVER_loop_invariant(str_k >= s_len || s_buf[str_k] == FILE_BYTE(__CPROVER_loop_entry(file_pos) - 1 + str_k))\n")

STR_READ_RX = (r"for \(size_t i=0; i<numStrings; i\+\+\) (\{\s*char c = file\.get\(\);\s*std::string s;\s*while \(c != '\\0'\) \{\s*s \+= c;"
               r"\s*c = file\.get\(\);\s*\}\s*strings\.push_back\(s\);\s*\})")


def string_codec(manifest):
    """the NUL-terminated name encoding: body of load()'s string loop (hexsim.hpp) and the writer statement of
    emitDebugInfo's string loop (hexasm.hpp), as C.  std::string s -> s_buf/s_len (append only), the ifstream -> FILE_GET()
    over the bytes the writer produced, strings.push_back(s) -> STR_PUSH(), ostream::write(p, n) -> OUT_WRITE(p, n)."""
    sim = Source("hexsim.hpp", manifest)
    b = sim.span(STR_READ_RX, "Processor::load string loop body", 1)
    b = rewrite(b, [
        (r"file\.get\(\)", "FILE_GET()", 2, 2),
        (r"std::string s;", "s_len = 0; /* std::string s */", 1, 1),
        (r"while \(c != '\\0'\) \{", lambda m: "while (c != '\\0')" + STR_READ_LOOP_CONTRACT + "    {", 1, 1),
        (r"s \+= c;", "s_buf[s_len++] = c;", 1, 1),
        (r"strings\.push_back\(s\);", "STR_PUSH();", 1, 1),
    ], "load string loop body", manifest)
    leftover_check(b, "load string loop body")
    asm = Source("hexasm.hpp", manifest)
    w = asm.span(r"\n\s*(outputFile\.write\(name\.c_str\(\), name\.length\(\)\+1\);)", "emitDebugInfo name write", 1)
    w = rewrite(w, [(r"outputFile\.write\(name\.c_str\(\), name\.length\(\)\+1\);", "OUT_WRITE(name_c_str, name_length+1);", 1, 1)], "emitDebugInfo name write", manifest)
    return "static void str_read_body(void) " + b + "\nstatic void str_write_stmt(void) { " + w + " }\n"

#!/usr/bin/env python3
"""hv -- common machinery for the hex-processor contract checks.

  * mechanical extraction of function bodies from /repo (verbatim text + counted rewrite rules)
  * the goto-cc -> goto-instrument --dfcc -> cbmc pipeline, one "job" per contract / harness
  * verdict logic (PASS / VIOLATION / UNDECIDED), known-findings file, evidence writer

Exit codes of every check:  0 = property held, 1 = VIOLATION (line printed), 2 = undecided /
infrastructure problem (never on the unchanged tree).
"""
import concurrent.futures
import hashlib
import json
import os
import re
import resource
import shutil
import signal
import subprocess
import sys
import time

VERIF = os.path.dirname(os.path.dirname(os.path.abspath(__file__)))
REPO = os.environ.get("HEX_REPO", "/repo")
OUTROOT = os.path.join(VERIF, "out")
GUARD = "HEX_VERIF"
NCPU = os.cpu_count() or 4

CBMC_CHECKS = ["--bounds-check", "--pointer-check", "--signed-overflow-check",
               "--undefined-shift-check", "--div-by-zero-check"]


class ExtractionError(Exception):
    pass


class Infra(Exception):
    pass


# --------------------------------------------------------------------------------------------
# extraction
# --------------------------------------------------------------------------------------------

def repo_text(rel):
    p = os.path.join(REPO, rel)
    try:
        with open(p) as f:
            return f.read()
    except OSError as e:
        raise ExtractionError("cannot read %s: %s" % (p, e))


def _skip_literal(s, i):
    """s[i] is a quote char; return index after the closing quote."""
    q = s[i]
    j = i + 1
    while j < len(s):
        if s[j] == "\\":
            j += 2
            continue
        if s[j] == q:
            return j + 1
        j += 1
    raise ExtractionError("unterminated literal")


def match_close(s, i, open_ch="{", close_ch="}"):
    """s[i] == open_ch; return index of the matching close_ch (skips strings, chars, comments)."""
    if s[i] != open_ch:
        raise ExtractionError("match_close: expected %r at %d, found %r" % (open_ch, i, s[i]))
    d = 0
    j = i
    n = len(s)
    while j < n:
        c = s[j]
        if c == '"' or (c == "'" and not (j > 0 and s[j - 1].isalnum())):
            j = _skip_literal(s, j)
            continue
        if c == "/" and j + 1 < n and s[j + 1] == "/":
            k = s.find("\n", j)
            j = n if k < 0 else k
            continue
        if c == "/" and j + 1 < n and s[j + 1] == "*":
            k = s.find("*/", j + 2)
            if k < 0:
                raise ExtractionError("unterminated comment")
            j = k + 2
            continue
        if c == open_ch:
            d += 1
        elif c == close_ch:
            d -= 1
            if d == 0:
                return j
        j += 1
    raise ExtractionError("unbalanced %s" % open_ch)


class Source:
    """One file of /repo plus a log of what was taken from it."""

    def __init__(self, rel, manifest):
        self.rel = rel
        self.text = repo_text(rel)
        self.manifest = manifest

    def _line(self, idx):
        return self.text.count("\n", 0, idx) + 1

    def anchor(self, regex, start=0, unique=True):
        ms = list(re.finditer(regex, self.text[start:], re.S))
        if not ms:
            raise ExtractionError("%s: anchor not found: %s" % (self.rel, regex))
        if unique and len(ms) > 1:
            raise ExtractionError("%s: anchor ambiguous (%d matches): %s" % (self.rel, len(ms), regex))
        return start + ms[0].start(), start + ms[0].end()

    def block_after(self, regex, name, start=0, unique=True, include_braces=True):
        """text of the {...} block that starts at the first '{' at/after the end of the anchor
        match (the anchor may itself end in '{')."""
        a, e = self.anchor(regex, start, unique)
        i = e - 1 if self.text[e - 1] == "{" else self.text.index("{", e)
        between = self.text[e:i]
        if between.strip() and not re.fullmatch(r"[\s\w:(),&*<>=?|!+\-\.\[\]]*", between):
            raise ExtractionError("%s: unexpected text between anchor and block: %r" % (self.rel, between))
        j = match_close(self.text, i)
        body = self.text[i:j + 1] if include_braces else self.text[i + 1:j]
        self.manifest.append({
            "unit": name, "file": self.rel, "anchor": regex,
            "lines": [self._line(i), self._line(j)],
            "sha256": hashlib.sha256(body.encode()).hexdigest()[:16],
        })
        return body, i, j

    def span(self, regex, name, group=0):
        """verbatim text of a regex match (for single statements / initialiser lists)."""
        ms = list(re.finditer(regex, self.text, re.S))
        if len(ms) != 1:
            raise ExtractionError("%s: span anchor matched %d times: %s" % (self.rel, len(ms), regex))
        m = ms[0]
        t = m.group(group)
        self.manifest.append({
            "unit": name, "file": self.rel, "anchor": regex,
            "lines": [self._line(m.start(group)), self._line(m.end(group))],
            "sha256": hashlib.sha256(t.encode()).hexdigest()[:16],
        })
        return t


def rewrite(text, rules, unit, manifest):
    """rules: list of (regex, replacement, min_fires[, max_fires]). Every rule must fire at least
    min_fires times over the text, otherwise extraction fails (exit 2, never a verdict)."""
    log = []
    for r in rules:
        rx, rep, mn = r[0], r[1], r[2]
        mx = r[3] if len(r) > 3 else None
        text, n = re.subn(rx, rep, text, flags=re.S)
        log.append({"rule": rx, "to": rep if isinstance(rep, str) else "<function>", "fired": n, "min": mn})
        if n < mn or (mx is not None and n > mx):
            raise ExtractionError("unit %s: rule %r fired %d times (expected %s..%s)" %
                                  (unit, rx, n, mn, mx if mx is not None else "inf"))
    manifest.append({"unit": unit, "rules": log})
    return text


def strip_comments(t):
    t = re.sub(r"/\*.*?\*/", "", t, flags=re.S)
    t = re.sub(r"//[^\n]*", "", t)
    return t


def leftover_check(text, unit, forbidden=(r"\bstd::", r"\bauto\b", r"::", r"\bthrow\b", r"<<\s*\"", r"dynamic_cast",
                                          r"static_cast", r"reinterpret_cast", r"\bnullptr\b")):
    """after rewriting, no C++-only construct may remain (otherwise goto-cc would fail obscurely,
    or worse, parse something different)."""
    t = strip_comments(text)
    for rx in forbidden:
        m = re.search(rx, t)
        if m:
            ln = t.count("\n", 0, m.start()) + 1
            raise ExtractionError("unit %s: C++ construct left after rewriting: %r near line %d: %r" %
                                  (unit, rx, ln, t[max(0, m.start() - 30):m.end() + 30]))


C_WORDS = set("if else while for do switch case default return sizeof break continue goto static inline const unsigned signed int long short char void bool "
              "struct union enum typedef extern volatile size_t uint8_t uint16_t uint32_t uint64_t int8_t int16_t int32_t int64_t abs malloc free memset memcpy "
              "defined assert".split())


def pull_helpers(text, source_file, manifest, rules=()):
    """free helper functions of the repository file that the extracted text calls but does not define (e.g. a few lines a
    refactoring moved into a `static int f(int)`): prototypes are put in front of the unit, the definitions (verbatim up to
    `rules`) behind it.  Scalar signatures only; anything else stays undefined and the jobs report it as infrastructure."""
    src = Source(source_file, manifest)
    plain = strip_comments(text)
    defined = set(re.findall(r"\b(\w+)\s*\([^;{}()]*(?:\([^()]*\)[^;{}()]*)*\)\s*(?:__CPROVER_\w+\s*\((?:[^()]|\([^()]*\))*\)\s*)*\{", plain))
    defined |= set(re.findall(r"#define\s+(\w+)\(", text))
    called = set(re.findall(r"\b([A-Za-z_]\w*)\s*\(", plain))
    protos, defs, pulled = [], [], []
    todo = sorted(c for c in called - defined - C_WORDS if not c.startswith(("__CPROVER", "nondet_", "h_", "VL_", "COVER", "EV_", "FILE_", "TB_", "OUT_", "VERIF_")))
    seen = set()
    while todo:
        name = todo.pop()
        if name in seen:
            continue
        seen.add(name)
        m = re.search(r"(?:^|\n)\s*(?:static |inline |constexpr )*(int|unsigned|size_t|bool|uint32_t|uint64_t|long) %s\(([^()]*)\)\s*\{" % re.escape(name), src.text)
        if not m:
            continue
        params = [" ".join(x.split()) for x in m.group(2).split(",") if x.strip()]
        if not all(re.fullmatch(r"(?:const )?(?:int|unsigned|size_t|bool|uint32_t|uint64_t|long|char) \w+", q) for q in params):
            continue
        lb = m.end() - 1
        body = src.text[lb:match_close(src.text, lb) + 1]
        body = rewrite(body, list(rules), "helper " + name, manifest) if rules else body
        try:
            leftover_check(body, "helper " + name)
        except ExtractionError:
            continue
        sig = "static %s %s(%s)" % (m.group(1), name, ", ".join(params) or "void")
        protos.append(sig + ";")
        defs.append(sig + " " + body)
        pulled.append(name)
        todo += [c for c in re.findall(r"\b([A-Za-z_]\w*)\s*\(", strip_comments(body)) if c not in defined and c not in C_WORDS and c not in seen]
    if pulled:
        manifest.append({"unit": "helper functions pulled from " + source_file, "functions": pulled})
    return "\n".join(protos) + ("\n" if protos else ""), "\n".join(defs) + ("\n" if defs else "")


# --------------------------------------------------------------------------------------------
# running tools
# --------------------------------------------------------------------------------------------

def _limits(mem_gb):
    def f():
        os.setsid()
        if mem_gb:
            b = int(mem_gb * (1 << 30))
            resource.setrlimit(resource.RLIMIT_AS, (b, b))
    return f


def run(cmd, cwd=None, timeout=600, mem_gb=None, stdin=None, env=None):
    """run a command under a timeout and address-space limit. returns (rc, stdout, stderr, secs);
    rc = -9 on timeout."""
    t0 = time.time()
    p = subprocess.Popen(cmd, cwd=cwd, stdout=subprocess.PIPE, stderr=subprocess.PIPE, stdin=subprocess.PIPE if stdin is not None else subprocess.DEVNULL,
                         preexec_fn=_limits(mem_gb), env=env, text=True)
    try:
        o, e = p.communicate(stdin, timeout=timeout)
        rc = p.returncode
    except subprocess.TimeoutExpired:
        try:
            os.killpg(p.pid, signal.SIGKILL)
        except ProcessLookupError:
            pass
        o, e = p.communicate()
        rc = -9
    return rc, o, e, time.time() - t0


class Job:
    """one CBMC obligation set: a harness entry point, optionally enforcing a contract."""

    def __init__(self, name, src, entry, enforce=None, replace=(), loop_contracts=False, flags=(),
                 defines=(), timeout=600, mem_gb=12, expect="success", kind="proof", unwind=None,
                 checks=None, cover=False, note="", functions=(), includes=(), solver=(), object_bits=None,
                 bounded=False, role="property", cover_by_assert=False, stop_on_fail=False, mem_est=2):
        self.name = name
        self.src = src
        self.entry = entry
        self.enforce = enforce
        self.replace = list(replace)
        self.loop_contracts = loop_contracts
        self.flags = list(flags)
        self.defines = list(defines)
        self.timeout = timeout
        self.mem_gb = mem_gb
        self.expect = expect          # "success" | "failure" (canary)
        self.kind = kind              # "proof" | "canary" | "cover" | "bounded" | "known"
        self.unwind = unwind
        self.checks = CBMC_CHECKS if checks is None else list(checks)
        self.cover = cover
        self.note = note
        self.functions = list(functions)   # functions under contract in this job (for evidence)
        self.includes = list(includes)
        self.solver = list(solver)
        self.object_bits = object_bits
        self.bounded = bounded
        self.role = role              # "property" -> a failed obligation is property-level; "aux"
        self.cover_by_assert = cover_by_assert  # cover goals written as assert(!(c), "covergoal ..."): every one must FAIL
        self.stop_on_fail = stop_on_fail and not cover_by_assert  # one SAT query; on failure only the first failed obligation is reported
        self.mem_est = mem_est        # estimated peak resident memory in GB (scheduling only: jobs are started while the sum fits the budget)
        self.result = None


def _parse_cbmc_json(text):
    try:
        data = json.loads(text)
    except json.JSONDecodeError:
        # cbmc sometimes is killed half way; try to salvage
        return None
    res = {"props": [], "goals": None, "status": None, "messages": []}
    for e in data:
        if "result" in e:
            res["props"] = e["result"]
        if "goals" in e:
            res["goals"] = e
        if "cProverStatus" in e:
            res["status"] = e["cProverStatus"]
        if "messageText" in e:
            res["messages"].append(e["messageText"])
    return res


def trace_values(trace, prefix="cex_"):
    """last assigned value of every harness variable whose name starts with prefix."""
    vals = {}
    for s in trace or []:
        if s.get("stepType") != "assignment":
            continue
        lhs = s.get("lhs", "")
        if not lhs.startswith(prefix):
            continue
        v = s.get("value", {})
        if "data" in v:
            vals[lhs] = v["data"]
        elif "binary" in v:
            vals[lhs] = v["binary"]
    return vals


def parse_c_int(s):
    """'-2147483648', '36ul', '0x1fu', 'TRUE', "'a'" -> int"""
    if isinstance(s, bool):
        return int(s)
    s = str(s).strip()
    if s in ("TRUE", "true"):
        return 1
    if s in ("FALSE", "false"):
        return 0
    m = re.match(r"^(?:\([\w\s]*\)\s*)?(-?(?:0x[0-9a-fA-F]+|\d+))[uUlL]*$", s)
    if m:
        return int(m.group(1), 0)
    m = re.match(r"^/\*.*\*/\s*(-?\d+)", s)
    if m:
        return int(m.group(1))
    raise ValueError("cannot parse C value %r" % s)


def run_job(job, workdir):
    """returns dict: status in {proved, failed, timeout, error}, obligations, failed list, secs."""
    d = os.path.join(workdir, re.sub(r"[^\w.\-]", "_", job.name))
    os.makedirs(d, exist_ok=True)
    t0 = time.time()
    out = {"job": job.name, "kind": job.kind, "entry": job.entry, "enforce": job.enforce, "replace": job.replace,
           "loop_contracts": job.loop_contracts, "unwind": job.unwind, "backend": "cbmc-sat(minisat)" if not job.solver else " ".join(job.solver),
           "obligations": 0, "discharged": 0, "failed": [], "status": "error", "secs": 0.0, "note": job.note,
           "functions": job.functions, "bounded": job.bounded, "role": job.role}
    a = os.path.join(d, "a.gb")
    b = os.path.join(d, "b.gb")
    cmd = ["goto-cc", "-DHEX_CBMC=1"] + ["-D" + x for x in job.defines] + ["-I" + i for i in job.includes] + \
          ["-I", os.path.join(VERIF, "spec"), "--function", job.entry, job.src, "-o", a]
    rc, o, e, _ = run(cmd, cwd=d, timeout=120, mem_gb=8)
    if rc != 0:
        out["error"] = "goto-cc failed: " + (e or o)[-2000:]
        out["secs"] = time.time() - t0
        return out
    if job.enforce or job.loop_contracts or job.replace:
        cmd = ["goto-instrument", "--dfcc", job.entry]
        if job.enforce:
            cmd += ["--enforce-contract", job.enforce]
        for r in job.replace:
            cmd += ["--replace-call-with-contract", r]
        if job.loop_contracts:
            cmd += ["--apply-loop-contracts"]
        cmd += [a, b]
        rc, o, e, _ = run(cmd, cwd=d, timeout=300, mem_gb=8)
        if rc != 0:
            out["error"] = "goto-instrument failed: " + (e or o)[-2000:]
            out["secs"] = time.time() - t0
            return out
        gb = b
    else:
        gb = a
    cmd = ["cbmc", gb, "--json-ui", "--drop-unused-functions"] + job.checks + job.flags + job.solver
    if job.object_bits:
        cmd += ["--object-bits", str(job.object_bits)]
    if job.unwind is not None:
        cmd += ["--unwind", str(job.unwind)] + ([] if job.cover else ["--unwinding-assertions"])
    if job.cover:
        cmd += ["--cover", "cover"]
    else:
        cmd += ["--trace"]
    props_listed = None
    if job.cover_by_assert:
        lc = [c for c in cmd if c != "--trace"] + ["--show-properties"]
        rc0, o0, e0, _ = run(lc, cwd=d, timeout=300, mem_gb=job.mem_gb)
        names = []
        try:
            for ent in json.loads(o0):
                for pr in ent.get("properties", []) if isinstance(ent, dict) else []:
                    if pr.get("description", "").startswith("covergoal"):
                        names.append(pr["name"])
        except Exception:
            names = []
        if not names:
            out["error"] = "no cover goals found: " + (e0 or o0)[-300:]
            out["secs"] = time.time() - t0
            return out
        for nm in names:
            cmd += ["--property", nm]
    elif job.kind == "canary":
        # only the reachability canary is checked (fast, and independent of whatever else fails on a modified tree)
        lc = [c for c in cmd if c != "--trace"] + ["--show-properties"]
        rc0, o0, e0, _ = run(lc, cwd=d, timeout=300, mem_gb=job.mem_gb)
        cname = None
        try:
            for ent in json.loads(o0):
                for pr in ent.get("properties", []) if isinstance(ent, dict) else []:
                    if "canary" in pr.get("description", ""):
                        cname = pr["name"]
        except Exception:
            cname = None
        if cname is None:
            out["error"] = "canary obligation not found: " + (e0 or o0)[-300:]
            out["secs"] = time.time() - t0
            return out
        cmd += ["--property", cname]
    elif job.stop_on_fail and not job.cover:
        # obligations are enumerated separately (the verdict run reports only a failing one)
        lc = [c for c in cmd if c != "--trace"] + ["--show-properties"]
        rc0, o0, e0, _ = run(lc, cwd=d, timeout=300, mem_gb=job.mem_gb)
        try:
            for ent in json.loads(o0):
                if "properties" in ent:
                    props_listed = ent["properties"]
        except Exception:
            props_listed = None
        if not props_listed:
            out["error"] = "could not enumerate obligations: " + (e0 or o0)[-500:]
            out["secs"] = time.time() - t0
            return out
        nb = sorted(set(p["name"].split(".no-body.")[-1] for p in props_listed if ".no-body." in p["name"]) |
                    set(p["name"].split(".assertion.")[0] for p in props_listed if "undefined function should be unreachable" in p.get("description", "")))
        if nb:
            out["error"] = "extracted unit calls functions it does not define (%s): extraction incomplete" % ", ".join(nb[:6])
            out["secs"] = time.time() - t0
            return out
        cmd += ["--stop-on-fail"]
    out["checker_cmd"] = " ".join(cmd)
    rc, o, e, secs = run(cmd, cwd=d, timeout=job.timeout, mem_gb=job.mem_gb)
    with open(os.path.join(d, "cbmc.json"), "w") as f:
        f.write(o)
    out["secs"] = round(time.time() - t0, 2)
    out["solver_secs"] = round(secs, 2)
    if rc == -9:
        out["status"] = "timeout"
        return out
    res = _parse_cbmc_json(o)
    if res is not None and props_listed is not None:
        # stop-on-fail run: synthesise the per-obligation table
        failed_one = None
        try:
            for ent in json.loads(o):
                if isinstance(ent, dict) and ent.get("status") == "failed" and "property" in ent:
                    failed_one = ent
        except Exception:
            pass
        if res["status"] == "success" and failed_one is None:
            res["props"] = [{"property": p["name"], "description": p.get("description", ""), "status": "SUCCESS", "sourceLocation": p.get("sourceLocation", {})} for p in props_listed]
        elif failed_one is not None:
            res["props"] = []
            for p in props_listed:
                if p["name"] == failed_one["property"]:
                    res["props"].append({"property": p["name"], "description": p.get("description", ""), "status": "FAILURE", "sourceLocation": p.get("sourceLocation", {}), "trace": failed_one.get("trace")})
                else:
                    res["props"].append({"property": p["name"], "description": p.get("description", ""), "status": "UNKNOWN(stop-on-fail)", "sourceLocation": p.get("sourceLocation", {})})
            if not any(p["status"] == "FAILURE" for p in res["props"]):
                res["props"].append({"property": failed_one["property"], "description": failed_one.get("description", ""), "status": "FAILURE", "sourceLocation": {}, "trace": failed_one.get("trace")})
            out["stop_on_fail"] = True
        else:
            res = None
    if res is None:
        out["status"] = "error"
        out["error"] = "unparseable cbmc output (rc=%s): %s" % (rc, (e or o)[-1500:])
        return out
    ign = [m for m in res["messages"] if "ignoring" in m]
    if ign:
        out["ignoring"] = ign[:5]
    if job.cover:
        goals = (res["goals"] or {}).get("goals", [])
        out["obligations"] = len(goals)
        out["discharged"] = sum(1 for g in goals if g.get("status") == "satisfied")
        out["failed"] = [{"name": g.get("goal"), "desc": g.get("description"), "class": "cover"} for g in goals if g.get("status") != "satisfied"]
        out["status"] = "proved" if goals and not out["failed"] else ("failed" if goals else "error")
        if not goals:
            out["error"] = "no cover goals: " + (e or "")[-500:] + " ".join(res["messages"][-3:])
        return out
    props = res["props"]
    if job.cover_by_assert:
        goals = [p for p in props if p.get("description", "").startswith("covergoal")]
        out["obligations"] = len(goals)
        out["discharged"] = sum(1 for g in goals if g["status"] == "FAILURE")
        out["failed"] = [{"name": g["property"], "desc": g.get("description"), "class": "cover"} for g in goals if g["status"] != "FAILURE"]
        out["status"] = "proved" if goals and not out["failed"] else ("failed" if goals else "error")
        if not goals:
            out["error"] = "no cover goals found"
        return out
    if not props:
        out["error"] = "no obligations generated (rc=%s): %s" % (rc, " | ".join(res["messages"][-4:]))
        return out
    out["obligations"] = len(props)
    classes = {}
    for p in props:
        cls = p.get("sourceLocation", {}).get("propertyClass") or p["property"].split(".")[-2] if "." in p["property"] else "assertion"
        classes.setdefault(cls, [0, 0])
        classes[cls][0] += 1
        if p["status"] == "SUCCESS":
            classes[cls][1] += 1
            out["discharged"] += 1
        elif p["status"].startswith("UNKNOWN"):
            pass
        else:
            out["failed"].append({"name": p["property"], "desc": p.get("description", ""), "class": cls,
                                  "line": p.get("sourceLocation", {}).get("line"),
                                  "function": p.get("sourceLocation", {}).get("function"),
                                  "status": p["status"], "cex": trace_values(p.get("trace"))})
    out["classes"] = {k: {"total": v[0], "discharged": v[1]} for k, v in classes.items()}
    out["samples"] = [{"obligation": p["property"], "desc": p.get("description", "")[:100], "status": p["status"]}
                      for p in props[:3] + props[-2:]]
    if job.loop_contracts:
        out["loop_invariant_obligations"] = sum(1 for p in props if "loop_invariant" in p["property"] or "loop invariant" in p.get("description", ""))
    # an unwinding assertion that fails means the chosen bound is too small for this code, not that a property is broken
    uw = [f for f in out["failed"] if ".unwind." in f["name"] or f["desc"].startswith("unwinding assertion")]
    if uw:
        out["failed"] = [f for f in out["failed"] if f not in uw]
        out["unwind_insufficient"] = [f["name"] for f in uw]
        out["status"] = "error"
        out["error"] = "unwinding bound too small (loop no longer within the stated bound): %s" % ", ".join(f["name"] for f in uw[:4])
        return out
    # a call to a function the unit does not define (a helper the extractor did not bring along) is havoc to CBMC: whatever
    # the other obligations say then is about a different program.  Infrastructure, never a verdict.
    nb = [f for f in out["failed"] if ".no-body." in f["name"] or f["desc"].startswith("no body for callee") or "undefined function should be unreachable" in f["desc"]]
    if nb:
        out["failed"] = []
        out["status"] = "error"
        out["error"] = "extracted unit calls functions it does not define (%s): extraction incomplete" % ", ".join(sorted(set(re.split(r"\.no-body\.|\.assertion\.", f["name"])[-1 if ".no-body." in f["name"] else 0] for f in nb))[:6])
        return out
    out["status"] = "proved" if not out["failed"] else "failed"
    return out


def run_jobs(jobs, workdir, max_workers=None):
    os.makedirs(workdir, exist_ok=True)
    only = os.environ.get("HEX_ONLY")  # development aid: run only the jobs whose name matches
    if only:
        jobs[:] = [j for j in jobs if re.search(only, j.name)]
    # memory-aware admission: the sum of the estimates of the running jobs stays within the budget
    import threading
    try:
        total_gb = os.sysconf("SC_PAGE_SIZE") * os.sysconf("SC_PHYS_PAGES") / (1 << 30)
    except (ValueError, OSError):
        total_gb = 32
    budget = max(8.0, min(float(os.environ.get("HEX_MEM_BUDGET_GB", "0")) or total_gb * 0.6, total_gb * 0.8))
    cond = threading.Condition()
    used = [0.0]

    def admitted(job):
        need = min(float(job.mem_est), budget)
        with cond:
            while used[0] + need > budget:
                cond.wait()
            used[0] += need
        try:
            return run_job(job, workdir)
        finally:
            with cond:
                used[0] -= need
                cond.notify_all()
    jobs_sorted = sorted(jobs, key=lambda j: -j.mem_est)
    with concurrent.futures.ThreadPoolExecutor(max_workers=max_workers or min(NCPU, max(1, len(jobs)))) as ex:
        futs = {ex.submit(admitted, j): j for j in jobs_sorted}
        for f in concurrent.futures.as_completed(futs):
            j = futs[f]
            try:
                j.result = f.result()
            except Exception as e:  # noqa
                j.result = {"job": j.name, "status": "error", "error": repr(e), "obligations": 0, "discharged": 0,
                            "failed": [], "secs": 0, "kind": j.kind, "functions": j.functions, "role": j.role, "bounded": j.bounded}
    return jobs


# --------------------------------------------------------------------------------------------
# native builds (replay / fidelity harnesses against the real C++)
# --------------------------------------------------------------------------------------------

def build_native(src, exe, extra=(), std="c++17", opt="-O1", timeout=600, lang_cxx=True, hooks=True):
    cc = "g++" if lang_cxx else "gcc"
    cmd = [cc, opt, "-w"] + (["-std=" + std] if lang_cxx else ["-std=gnu11"]) + (["-D" + GUARD] if hooks else []) + \
          ["-DNDEBUG", "-I", REPO, "-I", os.path.join(VERIF, "spec"), "-I", os.path.join(VERIF, "native")] + list(extra) + [src, "-o", exe]
    rc, o, e, s = run(cmd, timeout=timeout)
    if rc != 0:
        raise Infra("native build failed: %s\n%s" % (" ".join(cmd), e[-3000:]))
    return exe


# --------------------------------------------------------------------------------------------
# known findings
# --------------------------------------------------------------------------------------------

def known_findings(pid):
    """lines 'known: property=<id> key=<key> -- text' from KNOWN_FINDINGS.txt"""
    p = os.path.join(VERIF, "KNOWN_FINDINGS.txt")
    res = {}
    if not os.path.exists(p):
        return res
    for l in open(p):
        l = l.strip()
        m = re.match(r"known:\s+property=(\w+)\s+key=(\S+)\s+(.*)$", l)
        if m and m.group(1) == pid:
            res[m.group(2)] = m.group(3)
    return res


# --------------------------------------------------------------------------------------------
# check driver
# --------------------------------------------------------------------------------------------

class Check:
    """A property check = extraction + a list of Jobs + optional native stages + replay."""

    def __init__(self, pid, tier, seed):
        self.pid = pid
        self.tier = tier
        self.seed = seed
        self.t0 = time.time()
        self.out = os.path.join(OUTROOT, pid)
        if os.path.isdir(self.out):
            shutil.rmtree(self.out, ignore_errors=True)
        os.makedirs(self.out, exist_ok=True)
        os.makedirs(os.path.join(self.out, "scratch"), exist_ok=True)
        os.environ["HEX_SCRATCH"] = os.path.join(self.out, "scratch")   # native harnesses put their temporary files here
        os.makedirs(os.path.join(OUTROOT, "replay"), exist_ok=True)
        self.manifest = []       # extraction manifest
        self.assumptions = []
        self.trusted = []
        self.jobs = []
        self.native = []         # native stage records
        self.violations = []     # dicts: obligation, replay path, text
        self.undecided = []
        self.known_printed = []
        self.warnings = []       # per-function contracts that no longer discharge while the property-level lemma does
        self.extra = {}
        self.level = "proof"
        self.functions = []

    # ---- helpers
    def write(self, name, text):
        p = os.path.join(self.out, name)
        with open(p, "w") as f:
            f.write(text)
        if name.endswith(".c"):
            # mechanical scan: every assumption in the unit (harness preconditions, instantiations, stub contracts) is listed in the evidence
            seen = []
            for ln in text.split("\n"):
                if "__CPROVER_assume(" in ln and "#define __CPROVER_assume" not in ln:
                    t = " ".join(ln.split())
                    if t not in seen:
                        seen.append(t[:260])
            scan = self.extra.setdefault("assume_scan", {})
            if len(scan) < 6:
                scan[name] = {"count": len(seen), "statements": seen[:60]}
        return p

    def replay_path(self, tag):
        return os.path.join(OUTROOT, "replay", "%s-%s.json" % (self.pid, re.sub(r"[^\w.\-]", "_", tag)))

    def add_violation(self, obligation, replay, text, confirmed):
        hidden = self.extra.get("hidden_state")
        if hidden and not confirmed:
            # the extracted interpreter carries state between iterations that the harnesses can only treat as arbitrary (no
            # invariant is available for it): an obligation that fails without a failing run of the real code may be failing
            # for an unreachable value of that state.  Undecided, not a violation.
            self.undecided.append("%s %s -- not confirmed on the real code; the interpreter has hidden loop-carried state (%s) that the harness treats as arbitrary" % (obligation, text, ", ".join(hidden)))
            return
        self.violations.append({"obligation": obligation, "replay": replay, "text": text, "confirmed": confirmed})

    def evidence(self, status):
        jobs = [j.result for j in self.jobs if j.result]
        proof_jobs = [r for r in jobs if r.get("kind") in ("proof",)]
        bounded_jobs = [r for r in jobs if r.get("kind") == "bounded"]
        obligations = sum(r.get("obligations", 0) for r in proof_jobs)
        discharged = sum(r.get("discharged", 0) for r in proof_jobs)
        samples = []
        for r in proof_jobs[:6]:
            for s in (r.get("samples") or [])[:2]:
                samples.append({"job": r["job"], **s})
        cmd = next((r.get("checker_cmd") for r in proof_jobs if r.get("checker_cmd")), "cbmc")
        cov = {
            "obligations": obligations,
            "discharged": discharged,
            "checker_cmd": "goto-cc --function <h> ; goto-instrument --dfcc <h> --enforce-contract <f> [--replace-call-with-contract g] [--apply-loop-contracts] ; " + cmd,
            "trusted_base": self.trusted,
            "samples": samples or [{"note": "no obligations"}],
            "functions_under_contract": sorted(set(self.functions)),
            "units": [{k: r.get(k) for k in ("job", "kind", "role", "entry", "enforce", "replace", "loop_contracts", "unwind", "backend", "obligations",
                                             "discharged", "status", "secs", "solver_secs", "classes", "note", "functions", "bounded", "error",
                                             "loop_invariant_obligations") if r.get(k) not in (None, [], "")}
                      | ({"failed": [{k: v for k, v in f.items()} for f in r.get("failed", [])[:8]]} if r.get("failed") else {})
                      for r in jobs],
            "bounded_standins": [{"job": r["job"], "bound": r.get("unwind"), "note": r.get("note"), "obligations": r.get("obligations"),
                                  "discharged": r.get("discharged")} for r in bounded_jobs],
            "canaries": [{"job": r["job"], "failed_as_expected": r.get("status") == "failed"} for r in jobs if r.get("kind") == "canary"],
            "cover": [{"job": r["job"], "goals": r.get("obligations"), "satisfied": r.get("discharged")} for r in jobs if r.get("kind") == "cover"],
            "native_stages": self.native,
            "extraction_manifest": self.manifest,
            "verdict": status,
            "violations": self.violations,
            "undecided": self.undecided,
            "known_findings_reported": self.known_printed,
            "contract_drift_warnings": self.warnings,
            "solver_seconds_total": round(sum(r.get("solver_secs", 0) or 0 for r in jobs), 2),
        }
        cov.update(self.extra)
        ev = {
            "property_id": self.pid, "tier": self.tier, "seed": self.seed, "level": self.level,
            "coverage": cov, "assumptions": self.assumptions, "wall_s": round(time.time() - self.t0, 2),
            "violations": len(self.violations),
        }
        os.makedirs(os.path.join(VERIF, "evidence"), exist_ok=True)
        with open(os.path.join(VERIF, "evidence", self.pid + ".json"), "w") as f:
            json.dump(ev, f, indent=1, default=str)

    def finish(self):
        """decide the verdict from jobs + native stages; print lines; write evidence; return rc."""
        infra = []
        for j in self.jobs:
            r = j.result
            if r is None:
                infra.append("%s: not run" % j.name)
                continue
            if j.kind == "canary":
                if r["status"] != "failed" or not any("canary" in (f.get("desc") or "") for f in r.get("failed", [])):
                    infra.append("canary %s did not fail (status=%s %s): contract vacuous or exit unreachable" % (j.name, r["status"], r.get("error", "")))
                continue
            if j.kind == "cover":
                if r["status"] != "proved":
                    infra.append("cover goals not all satisfied in %s: %s %s" % (j.name, [f["desc"] for f in r.get("failed", [])][:5], r.get("error", "")))
                continue
            if r["status"] in ("timeout", "error"):
                infra.append("%s: %s %s" % (j.name, r["status"], r.get("error", "")))
            if r.get("ignoring"):
                infra.append("%s: solver ignored quantifier: %s" % (j.name, r["ignoring"]))
            if j.loop_contracts and r["status"] == "proved" and not r.get("loop_invariant_obligations"):
                infra.append("%s: loop contracts requested but no loop invariant obligations generated" % j.name)
        if self.violations:
            vs = sorted(self.violations, key=lambda v: not v["confirmed"])
            for v in vs[:4]:
                tail = "" if v["confirmed"] else " no-failing-input-found"
                print("VIOLATION property=%s replay=%s obligation=%s %s%s" % (self.pid, v["replay"], v["obligation"], v["text"], tail))
            if len(vs) > 4:
                print("(%d more failed obligations for %s listed in %s)" % (len(vs) - 4, self.pid, os.path.join(VERIF, "evidence", self.pid + ".json")))
            self.evidence("violation")
            return 1
        if infra or self.undecided:
            lines = ["UNDECIDED property=%s reason=%s" % (self.pid, m) for m in infra] + ["UNDECIDED property=%s obligation=%s" % (self.pid, m) for m in self.undecided]
            for l in lines[:4]:
                print(l)
            if len(lines) > 4:
                print("(%d more undecided items for %s listed in %s)" % (len(lines) - 4, self.pid, os.path.join(VERIF, "evidence", self.pid + ".json")))
            self.evidence("undecided")
            return 2
        self.evidence("pass")
        for w in self.warnings:
            print("CONTRACT-DRIFT property=%s %s (property-level obligations all discharged; not a violation)" % (self.pid, w))
        jobs = [j.result for j in self.jobs if j.result and j.kind == "proof"]
        print("PASS property=%s tier=%s obligations=%d discharged=%d units=%d wall=%.1fs" % (
            self.pid, self.tier, sum(r["obligations"] for r in jobs), sum(r["discharged"] for r in jobs), len(jobs), time.time() - self.t0))
        return 0


def main_wrapper(fn, pid, native_only=None):
    import argparse
    ap = argparse.ArgumentParser()
    ap.add_argument("--tier", default=os.environ.get("VERIF_TIER", "quick"))
    ap.add_argument("--replay", default=None)
    a = ap.parse_args(sys.argv[2:])
    seed = int(os.environ.get("VERIF_SEED", "1") or 1)
    tier = a.tier if a.tier in ("quick", "thorough") else "quick"
    chk = Check(pid, tier, seed)
    try:
        rc = fn(chk, a.replay)
    except ExtractionError as e:
        # The proof cannot be attempted (the code no longer has the shape the contracts were written for).  The native
        # stages run the REAL code on concrete inputs and need no extracted text: a failure they find is a confirmed
        # violation; otherwise the property is undecided.
        chk.undecided.append("extraction: %s" % e)
        chk.jobs = []
        if native_only is not None and not a.replay:
            try:
                native_only(chk)
            except (Infra, ExtractionError) as e2:
                chk.undecided.append("native-only stage: %s" % e2)
        if chk.violations:
            print("UNDECIDED-PROOF property=%s reason=extraction %s (violation below found by running the real code)" % (pid, e))
            rc = chk.finish()
        else:
            print("UNDECIDED property=%s reason=extraction %s" % (pid, e))
            chk.evidence("undecided")
            rc = 2
    except Infra as e:
        # a tool or build step failed (e.g. the extracted text no longer compiles): no proof; the stages on the real code
        # can still run, and a failure they find is a confirmed violation
        chk.undecided.append("infrastructure: %s" % e)
        chk.jobs = []
        if native_only is not None and not a.replay and not chk.violations:
            try:
                native_only(chk)
            except (Infra, ExtractionError) as e2:
                chk.undecided.append("native-only stage: %s" % e2)
        if chk.violations:
            print("UNDECIDED-PROOF property=%s reason=infrastructure %s (violation below found by running the real code)" % (pid, str(e)[:300]))
            rc = chk.finish()
        else:
            print("UNDECIDED property=%s reason=infrastructure %s" % (pid, e))
            chk.evidence("undecided")
            rc = 2
    return rc

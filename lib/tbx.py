"""tbx -- mechanical extraction of hextb.cpp (run(), handleSyscall(), load(), reset constants) into C
over the Verilator-generated model converted by vl2c (prefix Vhex, symbol table object `S`)."""
import re
from hv import Source, rewrite, strip_comments, ExtractionError, leftover_check, match_close

MEMQ = "top->hex->u_memory->memory_q"


def _rewrite_memq(t, counts):
    """top->hex->u_memory->memory_q[e] -> TBMEM(e)   (an lvalue macro over the vl2c memory array)"""
    out = []
    i = 0
    pat = re.compile(re.escape(MEMQ) + r"\[")
    while True:
        m = pat.search(t, i)
        if not m:
            out.append(t[i:])
            break
        out.append(t[i:m.start()])
        lb = m.end() - 1
        rb = match_close(t, lb, "[", "]")
        out.append("TBMEM(%s)" % _rewrite_memq(t[lb + 1:rb], counts))
        counts["TBMEM"] = counts.get("TBMEM", 0) + 1
        i = rb + 1
    return "".join(out)


def _drop_if_blocks(t, cond_regex, repl, counts, key):
    """replace `if (<cond>) { ... }` (brace matched) by repl"""
    while True:
        m = re.search(r"if \(" + cond_regex + r"\) \{", t)
        if not m:
            return t
        lb = m.end() - 1
        rb = match_close(t, lb)
        t = t[:m.start()] + repl + t[rb + 1:]
        counts[key] = counts.get(key, 0) + 1


def constants(manifest):
    src = Source("hextb.cpp", manifest)
    b = src.span(r"constexpr size_t RESET_BEGIN = (\d+);", "RESET_BEGIN", 1)
    e = src.span(r"constexpr size_t RESET_END = (\d+);", "RESET_END", 1)
    return "#define RESET_BEGIN ((size_t)%s)\n#define RESET_END ((size_t)%s)\n" % (b, e), int(b), int(e)


def handleSyscall(manifest):
    src = Source("hextb.cpp", manifest)
    b, _, _ = src.block_after(r"void handleSyscall\(hex::Syscall syscall,\s*const std::unique_ptr<Vhex_pkg> &top,\s*int &exitCode,\s*bool trace\) \{", "hextb handleSyscall")
    c = {}
    # a local reference to the memory array (`auto &m = top->hex->u_memory->memory_q;`) is expanded
    ma = re.search(r"auto &(\w+) = " + re.escape(MEMQ) + r";", b)
    if ma:
        b = b[:ma.start()] + b[ma.end():]
        b = re.sub(r"(?<![\w.>])%s\[" % re.escape(ma.group(1)), MEMQ + "[", b)
        c["memory alias expanded"] = ma.group(1)
    b = _drop_if_blocks(b, r"trace", "TB_TRACE();", c, "trace blocks")
    if c.get("trace blocks", 0) != 3:
        raise ExtractionError("handleSyscall: expected 3 `if (trace) {...}` blocks, found %s" % c)
    b = _rewrite_memq(b, c)
    if c.get("TBMEM", 0) < 6:
        raise ExtractionError("handleSyscall: expected >= 6 memory accesses, found %s" % c)
    b = rewrite(b, [
        (r"hex::Syscall::", "SC_", 3),
        (r"\bexitCode\b", "(*exitCode)", 1),
        (r"io\.output\(", "io_output(", 1, 1), (r"io\.input\(", "io_input(", 1, 1),
        (r"throw std::runtime_error\([^;]*\);", "{ VERIF_THROW(0); return; }", 1, 1),
    ], "hextb handleSyscall", manifest)
    leftover_check(b, "handleSyscall")
    manifest.append({"unit": "hextb handleSyscall", "rewritten": c, "dropped": ["trace printing (3 blocks)"]})
    return re.sub(r"\b(exitCode|trace|maxCycles)\b", r"tb_\1", "static void handleSyscall(Syscall syscall, int *exitCode, bool trace) " + b + "\n")


def run_parts(manifest):
    """run(): prologue statements, loop condition, loop body as tb_tick(), epilogue"""
    src = Source("hextb.cpp", manifest)
    b, _, _ = src.block_after(r"int run\(const std::unique_ptr<VerilatedContext> &contextp,\s*const std::unique_ptr<Vhex_pkg> &top,\s*bool trace,\s*size_t maxCycles\) \{", "hextb run")
    m = re.search(r"\bwhile \(", b)
    if not m or len(re.findall(r"\bwhile \(", b)) != 1 or re.search(r"\bfor \(|\bdo \{", b):
        raise ExtractionError("hextb run(): expected exactly one loop, `while (<condition>) {`")
    cp = match_close(b, m.end() - 1, "(", ")")
    cond = " ".join(b[m.end():cp].split())
    if "!contextp->gotFinish()" not in cond or "maxCycles" not in cond:
        raise ExtractionError("hextb run(): loop condition does not test gotFinish() and maxCycles: %r" % cond)
    lb = b.index("{", cp)
    if b[cp + 1:lb].strip():
        raise ExtractionError("hextb run(): loop body is not a block")
    rb = match_close(b, lb)
    body = b[lb:rb + 1]
    pro = strip_comments(b[1:m.start()]).strip()
    epi = strip_comments(b[rb + 1:]).strip().rstrip("}").strip()
    if not re.fullmatch(r"top->final\(\);\s*return exitCode;", epi):
        raise ExtractionError("hextb run(): unexpected epilogue %r" % epi)
    pl = [x.strip() for x in pro.split(";") if x.strip()]
    decl = [x for x in pl if re.match(r"(uint64_t cycle_count = 0|int exitCode = 0)$", x)]
    if len(decl) != 2:
        raise ExtractionError("hextb run(): expected `uint64_t cycle_count = 0; int exitCode = 0;` before the loop, found %r" % pl)
    # further scalar locals of run() (loop-carried testbench state) become globals of the unit; harnesses that start in
    # the middle of the loop must treat them as arbitrary
    extra = []
    for x in pl:
        mx = re.fullmatch(r"(bool|int|unsigned|uint64_t|uint32_t|size_t) (\w+) = (false|true|-?\d+)", x)
        if mx and x not in decl:
            extra.append((mx.group(1), mx.group(2), mx.group(3)))
    stmts = [x for x in pl if x not in decl and not any(x.startswith("%s %s =" % (t, n)) for t, n, v in extra)]
    for x in stmts:
        if not re.fullmatch(r"top->(i_rst|i_clk) = [01]|top->eval\(\)", x):
            raise ExtractionError("hextb run(): prologue statement not understood: %r" % x)
    rules_common = [
        (r"top->(i_clk|i_rst|o_syscall_valid|o_syscall)\b", r"S.TOP.\1", 1),
        (r"top->eval\(\);", "Vhex_eval_step(&S);", 0),
    ]
    pro_c = rewrite(";\n  ".join(stmts) + ";", rules_common, "hextb run prologue", manifest)
    c = {}
    # the trace printing block: `if (trace && top->i_clk && <time expression> > RESET_END) {...}` (the time may be read
    # through a local)
    body = _drop_if_blocks(body, r"trace && top->i_clk && [\w>\-()]+ > RESET_END", "TB_TRACE();", c, "trace block")
    if c.get("trace block", 0) != 1:
        raise ExtractionError("hextb run(): trace block not found")
    body = rewrite(body, rules_common + [
        (r"contextp->timeInc\(1\);", "tb_time += 1;", 1, 1),
        (r"contextp->time\(\)", "tb_time", 1),
        (r"auto syscall = static_cast<hex::Syscall>\(", "Syscall syscall = (Syscall)(", 1, 1),
        (r"handleSyscall\(syscall, top, exitCode, trace\);", "{ TB_SYSCALL_ENTRY(syscall); handleSyscall(syscall, &exitCode, trace); }", 1, 1),
        (r"if \(syscall == hex::Syscall::EXIT\) \{\s*break;\s*\}", "if (syscall == SC_EXIT) { tb_break = true; return; }", 1, 1),
    ], "hextb run loop body", manifest)
    leftover_check(body, "tb_tick")
    if "top->" in body or "contextp" in body:
        raise ExtractionError("hextb run(): unconverted testbench access left in loop body")
    cond_c = cond.replace("!contextp->gotFinish()", "!tb_gotFinish")
    leftover_check(cond_c, "hextb run() loop condition")
    if "contextp" in cond_c or "top->" in cond_c:
        raise ExtractionError("hextb run(): loop condition not understood: %r" % cond)
    manifest.append({"unit": "hextb run", "prologue": stmts, "extra_locals": extra, "loop_condition": cond, "dropped": ["trace printing block", "top->final()"]})
    # the loop body in two halves at the system-call sampling `if` (C06 states its relation between them)
    # split point: directly after the (dropped) trace block that follows eval() and the cycle counter
    ms = re.search(r"TB_TRACE\(\);", body)
    if not ms or "Vhex_eval_step(&S);" not in body[:ms.start()] or "handleSyscall(" not in body[ms.end():]:
        raise ExtractionError("hextb run(): cannot split the loop body between eval() and the system-call sampling")
    head = body[:ms.end()] + "\n}"
    tail = "{" + body[ms.end():]
    text = ("static uint64_t cycle_count; static int exitCode; static uint64_t tb_time; static bool tb_break, tb_gotFinish, trace; static size_t maxCycles;\n"
            + "".join("static %s %s; /* local of run() */\n" % (t, n) for t, n, v in extra) +
            "static void tb_prologue(void) {\n  cycle_count = 0; exitCode = 0;" + "".join(" %s = %s;" % (n, v) for t, n, v in extra) + "\n  %s\n}\n"
            "#define TB_RUN_COND (%s)\n"
            "static void tb_tick_head(void) %s\n"
            "static void tb_tick_tail(void) %s\n"
            "/* one iteration of run()'s loop = head; tail (the body split at the sampling `if`, nothing dropped in between) */\n"
            "static void tb_tick(void) { tb_tick_head(); tb_tick_tail(); }\n") % (pro_c, cond_c, head, tail)
    # hextb's locals get a tb_ prefix so that the unit can be combined with the extracted hexsim (which has exitCode, trace(), maxCycles)
    text = re.sub(r"\b(exitCode|trace|maxCycles)\b", r"tb_\1", text)
    return text, {"stmts": stmts, "extra_locals": extra}


def load_fn(manifest):
    """hextb load(): size arithmetic and copy extent; file operations are FILE_* stubs"""
    src = Source("hextb.cpp", manifest)
    b, _, _ = src.block_after(r"void load\(const char \*filename,\s*const std::unique_ptr<Vhex_pkg> &top\) \{", "hextb load")
    c = {}
    # the names of load()'s locals are free: they are mapped to the names the rules below (and the harness stubs) use
    ren = {}
    for rx, canon in ((r"std::streampos (\w+);", "fileSize"), (r"unsigned (\w+) = static_cast<unsigned>\(\w+\) - 4;", "remainingFileSize"),
                      (r"unsigned (\w+);\s*file\.read\(reinterpret_cast<char\*>\(&\1\), 4\);", "programSize"), (r"std::vector<uint32_t> (\w+)\(", "buffer")):
        mr = re.search(rx, b)
        if mr and mr.group(1) != canon:
            ren[mr.group(1)] = canon
    for old_, new_ in ren.items():
        if re.search(r"\b%s\b" % new_, b):
            raise ExtractionError("hextb load(): cannot rename local %s to %s (name in use)" % (old_, new_))
        b = re.sub(r"\b%s\b" % re.escape(old_), new_, b)
    if ren:
        manifest.append({"unit": "hextb load", "locals_renamed": ren})
    b = _drop_if_blocks(b, r"programSize != remainingFileSize", "/* size-mismatch warning dropped */;", c, "warning")
    b = rewrite(b, [
        (r"std::streampos fileSize;", "long fileSize;", 1, 1),
        (r"std::ifstream file\(filename, std::ios::binary\);", "FILE_OPEN();", 1, 1),
        (r"file\.seekg\(0, std::ios::(?:end|beg)\);", ";", 2, 2),
        (r"fileSize = file\.tellg\(\);", "fileSize = FILE_SIZE();", 1, 1),
        (r"static_cast<unsigned>\(fileSize\)", "(unsigned)(fileSize)", 1, 1),
        (r"file\.read\(reinterpret_cast<char\*>\(&programSize\), 4\);", "FILE_READ_U32(&programSize);", 1, 1),
        (r"std::vector<uint32_t> buffer\(remainingFileSize\);", "size_t buffer_size = remainingFileSize; /* std::vector<uint32_t> buffer(remainingFileSize) */", 1, 1),
        (r"file\.read\(reinterpret_cast<char\*>\(buffer\.data\(\)\), remainingFileSize\);", "FILE_READ_BUFFER(remainingFileSize);", 1, 1),
        # zero fill of the whole RTL memory array (absent on trees where load() leaves the power-on contents in place)
        (r"std::memset\(top->hex->u_memory->memory_q\.data\(\), 0, ([^;]*)\);", r"TB_MEMZERO_DUT(\1);", 0, 1),
        (r"sizeof\(top->hex->u_memory->memory_q\)", "(4u * (size_t)RTL_WORDS)", 0),
        (r"hex::MAX_MEMORY_SIZE_WORDS", "ISA_MEM_WORDS", 0),
        (r"std::memcpy\(top->hex->u_memory->memory_q\.data\(\), buffer\.data\(\), buffer\.size\(\)\);", "TB_MEMCPY_TO_DUT(buffer_size);", 1, 1),
        (r"std::cout << \"Wrote \" << programSize << \" bytes to memory\\n\";", "TB_BANNER(programSize);", 1, 1),
    ], "hextb load", manifest)
    leftover_check(b, "tb_load")
    return "static void tb_load(void) " + b + "\n"

"""simunit -- the extracted hexsim translation unit shared by C02, C12, C15, C06, C07."""
import os
import hv
import asmx
import simx

PRELUDE = r"""
#include "cprelude.h"
#include "isa.h"
bool verif_thrown;
"""

GHOST_IO = r"""
/* --- ghost I/O: stream operations record one event; get() returns the harness's input oracle --- */
enum { OPEN_out = 1, OPEN_in = 2 };
int g_io_calls, g_ev_kind, g_ev_file, g_opens, g_open_idx, g_open_mode, g_open_name; bool g_ev_to_file; uint8_t g_ev_byte; int g_oracle_in;
#define NAME_ID(s) ((sizeof(s) == 7 && (s)[0]=='s' && (s)[1]=='i' && (s)[2]=='m' && (s)[3]=='o' && (s)[4]=='u' && (s)[5]=='t') ? 1 : \
                    (sizeof(s) == 6 && (s)[0]=='s' && (s)[1]=='i' && (s)[2]=='m' && (s)[3]=='i' && (s)[4]=='n') ? 2 : 0)
#define EV_STDOUT(v) do { g_io_calls++; g_ev_kind = EV_WRITE; g_ev_to_file = false; g_ev_byte = (uint8_t)(v); } while (0)
#define EV_FILE_PUT(i, v) do { __CPROVER_assert((i) < 8, "file index below 8"); g_io_calls++; g_ev_kind = EV_WRITE; g_ev_to_file = true; g_ev_file = (int)(i); g_ev_byte = (uint8_t)(v); } while (0)
#define EV_OPEN(name, i, mode) do { __CPROVER_assert((i) < 8, "file index below 8"); g_opens++; g_open_idx = (int)(i); g_open_mode = (mode); g_open_name = NAME_ID(name); } while (0)
static inline int EV_STDIN_GET(void) { g_io_calls++; g_ev_kind = EV_READ; g_ev_to_file = false; return g_oracle_in; }
static inline int EV_FILE_GET(size_t i) { __CPROVER_assert(i < 8, "file index below 8"); g_io_calls++; g_ev_kind = EV_READ; g_ev_to_file = true; g_ev_file = (int)i; return g_oracle_in; }
"""

PRELUDE = PRELUDE + GHOST_IO


ACCESSORS = r"""
/* --- the one flat memory array: symbolic-size object, every access asserted in range --- */
uint32_t *memory;
/* std::array<uint32_t, N>::operator[](size_type): the index is a size_t and is not checked */
static inline uint32_t RD(size_t a) { __CPROVER_assert(a < MEMORY_SIZE_WORDS, "hexsim memory index within the simulated memory"); return memory[a < MEMORY_SIZE_WORDS ? a : 0]; }
static inline void WR_(size_t a, uint32_t v) { __CPROVER_assert(a < MEMORY_SIZE_WORDS, "hexsim memory store index within the simulated memory"); memory[a < MEMORY_SIZE_WORDS ? a : 0] = v; }
#define WR(a, v) WR_((a), (v))
"""

HARNESS = r"""
#ifdef HEX_CBMC
size_t nondet_size(void); uint32_t nondet_u32(void); int nondet_int(void); _Bool nondet_bool(void);

static void havoc_state(void) {
  size_t n = nondet_size();
  __CPROVER_assume(n >= MEMORY_SIZE_WORDS && n <= 2 * MEMORY_SIZE_WORDS);
  memory = malloc(n * sizeof(uint32_t));
  __CPROVER_assume(memory != NULL);
  pc = nondet_u32(); areg = nondet_u32(); breg = nondet_u32(); oreg = nondet_u32(); instr = nondet_u32();
  lastPC = nondet_u32(); cycles = nondet_size(); maxCycles = nondet_size(); instrEnum = (Instr)nondet_int();
  exitCode = nondet_int();
  for (int i = 0; i < 8; i++) connected[i] = nondet_bool();
  running = true; tracing = TRACING_INIT; truncateInputs = true; verif_thrown = false;
#ifdef WITH_TRACE
  { size_t ds = nondet_size(); __CPROVER_assume(ds <= 1000000); debugInfo_size = ds; debugInfo = malloc((ds ? ds : 1) * sizeof(DebugEntry)); __CPROVER_assume(debugInfo != NULL);
    g_fmt_calls = 0; g_first_nargs = 0; g_cur = 0; g_nargs_cur = 0; g_fmt_truncates = false; }
#endif
  g_io_calls = 0; g_ev_kind = EV_NONE; g_ev_file = 0; g_opens = 0; g_open_idx = -1; g_open_mode = 0; g_open_name = 0; g_ev_to_file = false; g_ev_byte = 0;
  __CPROVER_assume(cycles < (size_t)1 << 62);
  hidden_havoc(); /* arbitrary loop-carried state (nothing on the pinned tree) */
}

/* Hoare triple for one iteration of run()'s loop against the ISA specification */
void h_step(void) {
  havoc_state();
  int cex_in = nondet_int();
  __CPROVER_assume(cex_in >= -1 && cex_in <= 255); /* assumed contract of istream::get / fstream::get */
  g_oracle_in = cex_in;
  uint32_t cex_pc = pc, cex_areg = areg, cex_breg = breg, cex_oreg = oreg;
  isa_state s = { pc, areg, breg, oreg, true, 0 };
  isa_write w; isa_event ev; isa_status st;
  isa_step(&s, memory, cex_in, &w, &ev, &st);
  /* quantifier of the property: defined bytes, effective addresses inside the simulated memory */
  __CPROVER_assume(st.defined && st.in_range);
  /* the (at most five) words this step can read, recorded for replay on the real simulator */
  uint32_t cex_opr = cex_oreg | ((memory[cex_pc >> 2] >> ((cex_pc & 3) << 3)) & 0xF);
  uint32_t cex_op = ((memory[cex_pc >> 2] >> ((cex_pc & 3) << 3)) >> 4) & 0xF;
  uint32_t cex_a0 = cex_pc >> 2, cex_a1 = 1;
  uint32_t cex_a2 = (cex_op == 6) ? cex_areg + cex_opr : (cex_op == 7 || cex_op == 8) ? cex_breg + cex_opr : cex_opr;
  if (cex_a2 >= MEMORY_SIZE_WORDS) cex_a2 = 1;
  uint32_t cex_v0 = memory[cex_a0], cex_v1 = memory[1], cex_v2 = memory[cex_a2];
  uint32_t cex_a3 = cex_v1 + 2 < MEMORY_SIZE_WORDS ? cex_v1 + 2 : 1, cex_a4 = cex_v1 + 3 < MEMORY_SIZE_WORDS ? cex_v1 + 3 : 1;
  uint32_t cex_v3 = memory[cex_a3], cex_v4 = memory[cex_a4];
  uint32_t k = nondet_u32(); __CPROVER_assume(k < MEMORY_SIZE_WORDS);
  uint32_t old_k = memory[k];
  int j = nondet_int(); __CPROVER_assume(j >= 0 && j < 8);
  bool old_conn_j = connected[j];
  bool old_conn_f = connected[ev.file_index];
  size_t old_cycles = cycles; int old_exit = exitCode;

  step();

  __CPROVER_assert(!verif_thrown, "C02: no error raised for a defined instruction");
  __CPROVER_assert(pc == s.pc, "C02: pc equals the ISA successor");
  __CPROVER_assert(areg == s.areg, "C02: areg equals the ISA successor");
  __CPROVER_assert(breg == s.breg, "C02: breg equals the ISA successor");
  __CPROVER_assert(oreg == s.oreg, "C02: oreg equals the ISA successor (accumulated by PFIX/NFIX, cleared otherwise)");
  __CPROVER_assert(memory[k] == ((w.wr && w.waddr == k) ? w.wdata : old_k), "C02: memory equals the ISA successor (stored word and frame)");
  __CPROVER_assert(running == s.running, "C02: run continues exactly unless the exit call executed");
  __CPROVER_assert(s.running || exitCode == (int)s.exit_value, "C02: exit value is the word at sp+2");
  __CPROVER_assert(!s.running || exitCode == old_exit, "C02: exit value untouched while running");
  /* I/O event */
  __CPROVER_assert(g_io_calls == ((ev.kind == EV_WRITE || ev.kind == EV_READ) ? 1 : 0), "C02: exactly one stream operation per write/read call, none otherwise");
  __CPROVER_assert(ev.kind == EV_EXIT || ev.kind == EV_NONE || g_ev_kind == (int)ev.kind, "C02: kind of stream operation");
  __CPROVER_assert(!(ev.kind == EV_WRITE || ev.kind == EV_READ) || g_ev_to_file == ev.to_file, "C02: standard stream below 256, file otherwise");
  __CPROVER_assert(!((ev.kind == EV_WRITE || ev.kind == EV_READ) && ev.to_file) || g_ev_file == (int)ev.file_index, "C02: file index is (stream >> 8) & 7");
  __CPROVER_assert(ev.kind != EV_WRITE || g_ev_byte == ev.byte, "C02: byte written is the low byte of the word at sp+2");
  /* files are opened lazily, exactly once, under the right name */
  bool file_op = (ev.kind == EV_WRITE || ev.kind == EV_READ) && ev.to_file;
  __CPROVER_assert(g_opens == ((file_op && !old_conn_f) ? 1 : 0), "C02: a stream file is opened exactly when first used");
  __CPROVER_assert(g_opens == 0 || (g_open_idx == (int)ev.file_index && g_open_name == (ev.kind == EV_WRITE ? 1 : 2) && g_open_mode == (ev.kind == EV_WRITE ? OPEN_out : OPEN_in)),
                   "C02: file opened is simout<n> for writing / simin<n> for reading");
  __CPROVER_assert(connected[j] == (old_conn_j || (file_op && j == (int)ev.file_index)), "C02: connected[] frame");
  /* bookkeeping used by run()'s loop condition and by tracing */
  __CPROVER_assert(cycles == old_cycles + 1 && lastPC == cex_pc, "C02: one instruction retired per iteration");
  __CPROVER_assert(tracing == TRACING_INIT && truncateInputs == true, "C02: options untouched");
#ifdef CANARY
  __CPROVER_assert(0, "canary: harness end reachable");
#endif
}

/* K consecutive iterations of run()'s loop, entered the way run() enters it (hidden_init), against the ISA applied K
   times.  Bounded stand-in for the induction "whole run = repeated step" in the one respect h_step cannot see: state the
   interpreter carries from one iteration to the next (a fetch buffer, a cached decode, ...).  Each iteration's expected
   successor is computed from the actual current state, so the comparison stays one symbolic memory wide. */
#ifndef KSTEPS
#define KSTEPS 3
#endif
void h_ksteps(void) {
  havoc_state();
  hidden_init();
  uint32_t cex_pc = pc, cex_areg = areg, cex_breg = breg, cex_oreg = oreg;
  uint32_t cex_ra[KSTEPS][5], cex_rv[KSTEPS][5], cex_wa[KSTEPS]; int cex_inb[KSTEPS]; bool cex_wr[KSTEPS]; int cex_n = 0;
  uint32_t k = nondet_u32(); __CPROVER_assume(k < MEMORY_SIZE_WORDS);
  int prev_in = 0;
  for (int i = 0; i < KSTEPS; i++) {
    if (!running) break;
    int in_i = nondet_int();
    __CPROVER_assume(in_i >= -1 && in_i <= 255 && (prev_in != -1 || in_i == -1)); /* end of input is sticky */
    prev_in = in_i; g_oracle_in = in_i; cex_inb[i] = in_i;
    isa_state s = { pc, areg, breg, oreg, true, 0 };
    isa_write w; isa_event ev; isa_status st;
    isa_step(&s, memory, in_i, &w, &ev, &st);
    __CPROVER_assume(st.defined && st.in_range);
    __CPROVER_assume(!((ev.kind == EV_WRITE || ev.kind == EV_READ) && ev.to_file)); /* stream files: h_step */
    uint32_t b = (memory[pc >> 2] >> ((pc & 3) << 3)) & 0xFF, opr = oreg | (b & 0xF), op = b >> 4;
    uint32_t a2 = (op == 6) ? areg + opr : (op == 7 || op == 8) ? breg + opr : opr; if (a2 >= MEMORY_SIZE_WORDS) a2 = 1;
    uint32_t spw = memory[1], a3 = spw + 2 < MEMORY_SIZE_WORDS ? spw + 2 : 1, a4 = spw + 3 < MEMORY_SIZE_WORDS ? spw + 3 : 1;
    cex_ra[i][0] = pc >> 2; cex_ra[i][1] = 1; cex_ra[i][2] = a2; cex_ra[i][3] = a3; cex_ra[i][4] = a4;
    for (int q = 0; q < 5; q++) cex_rv[i][q] = memory[cex_ra[i][q]];
    cex_wr[i] = w.wr; cex_wa[i] = w.waddr; cex_n = i + 1;
    uint32_t old_k = memory[k];
    g_io_calls = 0; g_ev_kind = EV_NONE;
    step();
    __CPROVER_assert(!verif_thrown, "C02 (K steps): no error raised for a defined instruction");
    __CPROVER_assert(pc == s.pc && areg == s.areg && breg == s.breg && oreg == s.oreg, "C02 (K steps): registers equal the ISA successor at every step of a run");
    __CPROVER_assert(memory[k] == ((w.wr && w.waddr == k) ? w.wdata : old_k), "C02 (K steps): memory equals the ISA successor at every step of a run");
    __CPROVER_assert(running == s.running && (s.running || exitCode == (int)s.exit_value), "C02 (K steps): exit behaviour equals the ISA at every step of a run");
    __CPROVER_assert(g_io_calls == ((ev.kind == EV_WRITE || ev.kind == EV_READ) ? 1 : 0) && (ev.kind != EV_WRITE || g_ev_byte == ev.byte), "C02 (K steps): stream operations equal the ISA at every step of a run");
  }
#ifdef CANARY
  __CPROVER_assert(0, "canary: harness end reachable");
#endif
#ifdef COVER_BY_ASSERT
  COVER_GOAL(cex_n == KSTEPS && cex_wr[0] && cex_wa[0] == cex_ra[1][0]);
#endif
}

/* run(): the loop executes while running and within the cycle limit; it returns exitCode */
void h_run_loop(void) {
  havoc_state();
  running = nondet_bool();
  bool c = RUN_COND;
  bool spec = running && (maxCycles == 0 || cycles <= maxCycles);
  __CPROVER_assert(c == spec, "C02: run() iterates exactly while running and within --max-cycles");
  __CPROVER_assert(&RUN_RETURNS == &exitCode, "C02: run() returns the exit value");
#ifdef CANARY
  __CPROVER_assert(0, "canary: harness end reachable");
#endif
}

void h_cover(void) {
  havoc_state();
  g_oracle_in = nondet_int(); __CPROVER_assume(g_oracle_in >= -1 && g_oracle_in <= 255);
  isa_state s = { pc, areg, breg, oreg, true, 0 };
  isa_write w; isa_event ev; isa_status st;
  isa_step(&s, memory, g_oracle_in, &w, &ev, &st);
  __CPROVER_assume(st.defined && st.in_range);
  uint32_t op = ((memory[pc >> 2] >> ((pc & 3) << 3)) >> 4) & 0xF;
  step();
  __CPROVER_cover(op == 0); __CPROVER_cover(op == 1); __CPROVER_cover(op == 2); __CPROVER_cover(op == 3); __CPROVER_cover(op == 4);
  __CPROVER_cover(op == 5); __CPROVER_cover(op == 6); __CPROVER_cover(op == 7); __CPROVER_cover(op == 8); __CPROVER_cover(op == 9);
  __CPROVER_cover(op == 10); __CPROVER_cover(op == 11); __CPROVER_cover(op == 13); __CPROVER_cover(op == 14); __CPROVER_cover(op == 15);
  __CPROVER_cover(ev.kind == EV_WRITE && ev.to_file); __CPROVER_cover(ev.kind == EV_WRITE && !ev.to_file);
  __CPROVER_cover(ev.kind == EV_READ && ev.to_file && g_opens == 1); __CPROVER_cover(ev.kind == EV_READ && !ev.to_file && g_oracle_in == -1);
  __CPROVER_cover(ev.kind == EV_EXIT && !running); __CPROVER_cover(w.wr && w.waddr == MEMORY_SIZE_WORDS - 1);
  __CPROVER_cover(op == 11 && (int)areg < 0); __CPROVER_cover(op == 13 && s.pc == breg && breg > 1000);
}
#endif

/* exported for the native fidelity run: one step on caller-provided memory */
typedef struct { uint32_t pc, areg, breg, oreg; int running, exitCode, thrown; int io_calls, ev_kind, ev_to_file, ev_file, ev_byte; } XState;
void X_step(XState *x, uint32_t *mem, int in_byte) {
  memory = mem; pc = x->pc; areg = x->areg; breg = x->breg; oreg = x->oreg; running = true; tracing = false; truncateInputs = true;
  verif_thrown = false; g_io_calls = 0; g_ev_kind = 0; g_ev_to_file = 0; g_ev_file = 0; g_ev_byte = 0; g_oracle_in = in_byte; exitCode = 0;
  for (int i = 0; i < 8; i++) connected[i] = true; /* no opens in the fidelity run */
  hidden_init(); /* the real side enters run() anew for every step */
  step();
  x->pc = pc; x->areg = areg; x->breg = breg; x->oreg = oreg; x->running = running; x->exitCode = exitCode; x->thrown = verif_thrown;
  x->io_calls = g_io_calls; x->ev_kind = g_ev_kind; x->ev_to_file = g_ev_to_file; x->ev_file = g_ev_file; x->ev_byte = g_ev_byte;
}
"""



NO_TRACE_STUBS = r"""
#ifndef TRACING_INIT
#define TRACING_INIT false
#endif
#ifdef HEX_CBMC
static void trace(uint32_t instr_, int instrEnum_) { __CPROVER_assert(0, "trace() not reachable with tracing off"); }
static void traceSyscall(void) { __CPROVER_assert(0, "traceSyscall() not reachable with tracing off"); }
#else
static void trace(uint32_t instr_, int instrEnum_) {}
static void traceSyscall(void) {}
#endif
"""

LOAD_STUBS = r"""
/* ghost binary file: 4-byte header word, then `g_file_words` image words, then (optionally) debug tables.
   FILE_* stubs stand for std::ifstream operations (assumed: read() delivers the file's bytes in order). */
size_t g_file_size;          /* bytes, as tellg() reports */
uint32_t g_file_header;      /* first word of the file */
uint32_t *g_file_image;      /* words that follow the header (symbolic-size object of g_file_words words) */
size_t g_file_words;
int g_reads_mem;
uint32_t g_dbg_words[8]; int g_dbg_pos; /* debug-table words consumed by FILE_READ_U32 after the image (bounded scripts, C15) */
#define FILE_OPEN() ((void)0)
#define FILE_SIZE() ((long)g_file_size)
static int g_u32_reads;
static inline void FILE_READ_U32(uint32_t *dst) { if (g_u32_reads == 0) *dst = g_file_header; else { *dst = g_dbg_words[g_dbg_pos < 8 ? g_dbg_pos : 7]; g_dbg_pos++; } g_u32_reads++; }
static inline void FILE_READ_MEM(unsigned nbytes) {
  /* requires of load(): the image the header announces is present in the file and fits the simulated memory */
  __CPROVER_assert(nbytes <= 4u * MEMORY_SIZE_WORDS, "load: image fits the simulated memory");
  __CPROVER_assert((size_t)nbytes == 4 * (size_t)g_file_header, "load: requests exactly the image the header announces");
  /* istream::read delivers min(requested, available) bytes: g_file_words = min(header, words present in the file) */
  g_reads_mem++;
#ifdef HEX_CBMC
  if (g_file_words > 0) __CPROVER_array_replace(memory, g_file_image);
#else
  for (size_t i = 0; i < g_file_words; i++) memory[i] = g_file_image[i];
#endif
}
#define FILE_READ_STRINGS(n) ((void)(n))
#define STRINGS_AT(i) ((int)(i))
#define DEBUGINFO_PUSH(name, off) do { } while (0)
#define DEBUGMAP_SET(name, off) do { } while (0)
"""

TRACE_GHOST = r"""
#ifndef TRACING_INIT
#define TRACING_INIT false
#endif
/* ghost log for trace text: format id/arity of the first and of every format statement, arguments of the first */
int g_fmt_calls; int g_first_nargs; uint64_t g_first_args[8]; int g_cur; int g_nargs_cur; bool g_fmt_truncates;
#define EV_TRUNCATES() do { g_fmt_truncates = true; } while (0)   /* a string directive with a precision: the column may be cut short */
#define EV_FMT(F, n) do { g_fmt_calls++; g_nargs_cur = 0; g_cur = g_fmt_calls; if (g_fmt_calls == 1) g_first_nargs = (n); } while (0)
#define EV_ARG(x) do { uint64_t v_ = (uint64_t)(x); if (g_cur == 1 && g_nargs_cur < 8) g_first_args[g_nargs_cur] = v_; g_nargs_cur++; } while (0)
/* std::map<std::string,unsigned> debugInfoMap[name]: the offset recorded for that name. Assumed: names are unique
   (xcmp/hexasm emit one FUNC/PROC per name), so it is the offset of the entry carrying the name. */
static inline uint32_t debugInfoMap_lookup(const DebugEntry *e) { return e->second; }
"""


def hidden_text(chk, m, names):
    text = ""
    # hidden state: anything the interpreter carries from one step to the next beyond the architectural state the
    # harnesses know about (extra scalar members of Processor, scalar locals of run() declared before its loop)
    defaults = names.get("__defaults__", {})
    extra = [(n, ty) for n, ty in names.items() if n not in KNOWN_FIELDS and not n.startswith("__") and ty in simx.SCALAR_TYPES.values()]
    inits = dict(defaults)
    if extra:
        for n, v in simx.ctor_items(m):
            if n in dict(extra) and v.replace(" ", "").replace("~", "").isalnum():
                inits[n] = v.replace("~0U", "~0u")
    loc = [x for x in m if isinstance(x, dict) and x.get("unit") == "Processor::run loop body"][-1].get("loop_carried_locals", [])
    text += "#ifdef HEX_CBMC\n" + "".join("%s nondet_field_%s(void);\n" % (ty, n) for n, ty in extra)
    text += "static void hidden_havoc(void) { run_locals_havoc();%s }\n#endif\n" % "".join(" %s = nondet_field_%s();" % (n, n) for n, ty in extra)
    text += ("/* hidden state as at the entry of run() on a freshly constructed Processor; members the constructor leaves\n"
             "   uninitialised keep whatever value they have */\n"
             "static void hidden_init(void) { run_prologue();%s }\n" % "".join(" %s = %s;" % (n, inits[n]) for n, ty in extra if n in inits))
    hidden = [n for n, ty in extra] + list(loc)
    text += "#define HIDDEN_STATE_COUNT %d\n" % len(hidden)
    m.append({"unit": "hidden interpreter state", "extra_members": [n for n, ty in extra], "run_locals": list(loc)})
    chk.extra["hidden_state"] = hidden
    return text


def unit_text(chk, with_trace=False, with_load=False, lookup_contract=True, ctor=False, accessors=None):
    m = chk.manifest
    en, _ = asmx.enums(m)
    fld, names = simx.fields(m)
    io, in_ty = simx.io_fns(m)
    sysc = simx.syscall_fn(m, in_ty)
    cond, step, ret = simx.run_parts(m)
    text = PRELUDE.replace('#include "isa.h"\n', '#include "isa.h"\n' + en, 1) + fld + (accessors or ACCESSORS) + names.get("__helpers__", "") + io + sysc
    if with_trace:
        text += TRACE_GHOST + simx.lookupSymbol_fn(m, lookup_contract) + simx.trace_fns(m) + "#define WITH_TRACE 1\n"
    if ctor:
        ct, inited = simx.ctor_inits(m)
        text += ct
    if with_load:
        text += LOAD_STUBS + simx.load_fn(m)
    if not with_trace:
        text += NO_TRACE_STUBS
    text += step + "#define RUN_COND (%s)\n#define RUN_RETURNS %s\n" % (cond, ret)
    text += hidden_text(chk, m, names)
    return text


KNOWN_FIELDS = {"pc", "areg", "breg", "oreg", "instr", "memory", "running", "tracing", "exitCode", "lastPC", "cycles", "maxCycles", "instrEnum",
                "truncateInputs", "io", "out", "in", "debugInfo", "debugInfoMap"}


def native_obj(chk, unit, name):
    obj = os.path.join(chk.out, name + ".o")
    rc, o, e, _ = hv.run(["gcc", "-O1", "-w", "-std=gnu11", "-c", "-I", os.path.join(hv.VERIF, "spec"), unit, "-o", obj], timeout=120)
    if rc != 0:
        raise hv.Infra("native build of extracted unit failed: " + e[-2000:])
    return obj

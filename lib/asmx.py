"""asmx -- mechanical extraction of hexasm.hpp / hex.hpp pieces into C text.

Every function returns C text and appends to the extraction manifest.  Bodies are copied verbatim
and then passed through counted rewrite rules (hv.rewrite): a rule that does not fire the minimum
number of times aborts the check with exit 2.
"""
import re
from hv import Source, rewrite, strip_comments, ExtractionError, leftover_check

THROW_RULE = (r"throw\s+[\w:]+\((?:[^;()]|\((?:[^()]|\([^()]*\))*\))*\);", r"{ VERIF_THROW(0); return VERIF_RET; }")


def enums(manifest):
    hexhpp = Source("hex.hpp", manifest)
    asm = Source("hexasm.hpp", manifest)
    out = []
    for name in ("Instr", "OprInstr"):
        body, _, _ = hexhpp.block_after(r"\benum %s \{" % name, "enum " + name)
        out.append("typedef enum %s %s;" % (strip_comments(body), name))
    body, _, _ = hexhpp.block_after(r"\benum class Syscall \{", "enum Syscall")
    names = [x.strip() for x in strip_comments(body).strip("{} \n").split(",") if x.strip()]
    out.append("typedef enum { %s } Syscall;" % ", ".join("SC_" + n for n in names))
    body, _, _ = asm.block_after(r"\benum class Token \{", "enum Token")
    names = [x.strip() for x in strip_comments(body).strip("{} \n").split(",") if x.strip()]
    if len(names) < 25 or any(not re.fullmatch(r"\w+", n) for n in names):
        raise ExtractionError("enum Token: unexpected enumerator list %r" % names)
    out.append("typedef enum { %s } Token;" % ", ".join("T_" + n for n in names))
    v = hexhpp.span(r"const int MAX_MEMORY_SIZE_WORDS = (\d+);", "MAX_MEMORY_SIZE_WORDS", 1)
    out.append("#define MAX_MEMORY_SIZE_WORDS %s" % v)
    return "\n".join(out) + "\n", names


TOKEN_RULES = [
    (r"\bToken::(\w+)", r"T_\1", 1),
]


def token_fns(manifest):
    """tokenToInstr, tokenToOprInstr, instrToInstrOpc, tokenToInstrOpc, tokenToOprInstrOpc"""
    asm = Source("hexasm.hpp", manifest)
    out = []
    b, _, _ = asm.block_after(r"static hex::Instr tokenToInstr\(Token token\) \{", "tokenToInstr")
    b = rewrite(b, [(r"\bToken::(\w+)", r"T_\1", 13), (r"hex::Instr::", "", 13),
                    (r"throw std::runtime_error\(.*?\)\);", "{ VERIF_THROW(0); return (Instr)0; }", 1, 1)], "tokenToInstr", manifest)
    out.append("static Instr tokenToInstr(Token token) " + b)
    b, _, _ = asm.block_after(r"static hex::OprInstr tokenToOprInstr\(Token token\) \{", "tokenToOprInstr")
    b = rewrite(b, [(r"\bToken::(\w+)", r"T_\1", 4), (r"hex::OprInstr::", "", 4),
                    (r"throw std::runtime_error\(.*?\)\);", "{ VERIF_THROW(0); return (OprInstr)0; }", 1, 1)], "tokenToOprInstr", manifest)
    out.append("static OprInstr tokenToOprInstr(Token token) " + b)
    for fn, arg, argty in (("instrToInstrOpc", "instr", "Instr"), ("tokenToInstrOpc", "token", "Token"), ("tokenToOprInstrOpc", "token", "Token")):
        b, _, _ = asm.block_after(r"static int %s\((?:hex::Instr|Token) %s\) \{" % (fn, arg), fn)
        b = rewrite(b, [(r"static_cast<int>\(", "(int)(", 1, 1)], fn, manifest)
        out.append("static int %s(%s %s) %s" % (fn, argty, arg, b))
    t = "\n".join(out) + "\n"
    leftover_check(t, "token_fns")
    return t


NUMNIBBLES_CONTRACT = """
__CPROVER_requires(1)
/* result is a nibble count */
__CPROVER_ensures(__CPROVER_return_value >= 1 && __CPROVER_return_value <= 8)
/* non-negative values fit zero-extended in n nibbles */
__CPROVER_ensures(value >= 0 ==> (__CPROVER_return_value == 8 || ((uint32_t)value >> (4 * __CPROVER_return_value)) == 0u))
/* negative values need the NFIX byte, and fit sign-extended in n nibbles */
__CPROVER_ensures(value < 0 ==> __CPROVER_return_value >= 2)
__CPROVER_ensures(value < 0 ==> (__CPROVER_return_value == 8 || ((uint32_t)value >> (4 * __CPROVER_return_value)) == (0xFFFFFFFFu >> (4 * __CPROVER_return_value))))
__CPROVER_assigns()
"""


NUMNIBBLES_LOOP_CONTRACT = True   # False when the counting loop has another shape: jobs then unwind it (it runs at most 8 times)


def numNibbles(manifest, with_contract=True):
    """the whole body, verbatim up to type spellings.  The loop contract is spliced onto the counting loop when it has the
    shape `while (<v> >= 16 ...) {` with a counter `int <n> = 1;`; any other loop shape is left without a contract
    and the jobs unwind it with unwinding assertions (the loop is bounded by the operand width), which is as complete."""
    global NUMNIBBLES_LOOP_CONTRACT
    asm = Source("hexasm.hpp", manifest)
    b, _, _ = asm.block_after(r"static int numNibbles\(int value\) \{", "numNibbles")
    m = re.search(r"while \(((\w+) >= 16[^{;]*)\) \{", b)
    cnt = re.search(r"\bint (\w+) = 1;", b)
    rules = [(r"std::abs\(", "abs(", 0), (r"static_cast<unsigned>\(", "(unsigned)(", 0), (r"static_cast<int>\(", "(int)(", 0), (r"static_cast<uint32_t>\(", "(uint32_t)(", 0)]
    NUMNIBBLES_LOOP_CONTRACT = bool(m and cnt and len(re.findall(r"\b(?:while|for)\b", b)) == 1)
    if with_contract and NUMNIBBLES_LOOP_CONTRACT:
        cond, var = m.group(1), m.group(2)
        n = cnt.group(1)
        loopc = ("while (%s)\n"
                 "  __CPROVER_assigns(%s, %s)\n"
                 "  __CPROVER_loop_invariant(%s >= 1 && %s <= 8 && %s > 0 && %s == (__CPROVER_loop_entry(%s) >> (4 * (%s - 1))) && (%s == 8 ==> %s < 16))\n"
                 "  __CPROVER_decreases(%s)\n  {") % (cond, var, n, n, n, var, var, var, n, n, var, var)
        rules.append((r"while \(\w+ >= 16[^{;]*\) \{", loopc.replace("\\", "\\\\"), 1, 1))
    b = rewrite(b, rules, "numNibbles", manifest)
    leftover_check(b, "numNibbles")
    manifest.append({"unit": "numNibbles", "loop_contract_spliced": NUMNIBBLES_LOOP_CONTRACT})
    return "static int numNibbles(int value)" + (NUMNIBBLES_CONTRACT if with_contract else "\n") + b + "\n"


GETSIZE_CONTRACT = """
__CPROVER_requires(1)
__CPROVER_ensures(__CPROVER_return_value >= 1 && __CPROVER_return_value <= 8)
__CPROVER_ensures(immValue >= 0 ==> (__CPROVER_return_value == 8 || ((uint32_t)immValue >> (4 * __CPROVER_return_value)) == 0u))
__CPROVER_ensures(immValue < 0 ==> __CPROVER_return_value >= 2)
__CPROVER_ensures(immValue < 0 ==> (__CPROVER_return_value == 8 || ((uint32_t)immValue >> (4 * __CPROVER_return_value)) == (0xFFFFFFFFu >> (4 * __CPROVER_return_value))))
__CPROVER_assigns()
"""


def getSize(manifest, cls="InstrImm", field="immValue", with_contract=True):
    asm = Source("hexasm.hpp", manifest)
    a, e = asm.anchor(r"class %s : public Directive \{" % cls)
    b, _, _ = asm.block_after(r"size_t getSize\(\) const \{", "%s::getSize" % cls, start=e, unique=False)
    if field not in b:
        raise ExtractionError("%s::getSize does not mention %s" % (cls, field))
    leftover_check(b, cls + "::getSize")
    c = GETSIZE_CONTRACT.replace("immValue", field) if with_contract else "\n"
    return "static size_t %s_getSize(int %s)" % (cls, field) + c + b + "\n"


EMIT_INSTR_CONTRACT = """
/* token is one of the twelve immediate-taking mnemonics (or OPR, whose operand is its sub-opcode) */
__CPROVER_requires(token == T_LDAM || token == T_LDBM || token == T_STAM || token == T_LDAC || token == T_LDBC || token == T_LDAP ||
                   token == T_LDAI || token == T_LDBI || token == T_STAI || token == T_BR || token == T_BRZ || token == T_BRN || token == T_OPR)
/* size is an encoding length in which value fits (InstrImm_getSize's postcondition; any non-minimal length is fine too) */
__CPROVER_requires(size >= 1 && size <= 8)
__CPROVER_requires(value >= 0 ==> (size == 8 || ((uint32_t)value >> (4 * size)) == 0u))
__CPROVER_requires(value < 0 ==> size >= 2)
__CPROVER_requires(value < 0 ==> (size == 8 || ((uint32_t)value >> (4 * size)) == (0xFFFFFFFFu >> (4 * size))))
__CPROVER_requires(out_len == 0 && !verif_thrown && byteOffset >= 0 && byteOffset < (1 << 28))
/* exactly `size` bytes, byteOffset advanced by as many */
__CPROVER_ensures(out_len == size && byteOffset == __CPROVER_old(byteOffset) + (int)size)
__CPROVER_ensures(!verif_thrown)
/* the ISA's own prefix rule delivers the value, from a clear operand register, to this mnemonic's opcode */
__CPROVER_ensures(spec_delivers(out_buf, size, (unsigned)tokenToInstr(token), (uint32_t)value))
__CPROVER_assigns(out_len, byteOffset, verif_thrown, __CPROVER_object_whole(out_buf))
"""


def emit_instr(manifest, with_contract=True):
    """the instruction arm of CodeGen::emitProgramBin: `} else if (size > 0) { ... }`"""
    asm = Source("hexasm.hpp", manifest)
    a, e = asm.anchor(r"void emitProgramBin\(std::ostream &outputFile\) \{")
    b, _, _ = asm.block_after(r"\} else if \(size > 0\) \{", "emitProgramBin: instruction arm", start=e, unique=False)
    b = rewrite(b, [
        (r"directive->getValue\(\)", "value", 1),
        (r"static_cast<(unsigned|int|uint32_t|int32_t|char|size_t)>\(", r"(\1)(", 0),
        (r"directive->getToken\(\)", "token", 1, 1),
        (r"outputFile\.put\(", "OUT_PUT(", 3),
        (r"hex::Instr::", "", 3),
        (r"hex::Instr\b", "Instr", 1),
    ], "emit_instr", manifest)
    leftover_check(b, "emit_instr")
    c = EMIT_INSTR_CONTRACT if with_contract else "\n"
    return "static void emit_instr(Token token, int value, size_t size)" + c + b + "\n"


def parseInteger(manifest):
    """Parser::parseInteger (negation of the unsigned lexer value) and the lexer's
    `value = std::strtoul(...)` narrowing, as  int parse_literal(bool minus, unsigned long strtoul_result)."""
    asm = Source("hexasm.hpp", manifest)
    b, _, _ = asm.block_after(r"int parseInteger\(\) \{", "Parser::parseInteger")
    b = rewrite(b, [
        (r"lexer\.getLastToken\(\) == Token::MINUS", "minus", 1, 1),
        (r"expectNext\(Token::NUMBER\);", "/* expectNext(NUMBER): token check, dropped */;", 1, 1),
        (r"expectLast\(Token::NUMBER\);", "/* expectLast(NUMBER): token check, dropped */;", 1, 1),
        (r"lexer\.getNumber\(\)", "lexer_value", 2, 2),
    ], "parseInteger", manifest)
    leftover_check(b, "parseInteger")
    # the lexer member and its assignment
    decl = asm.span(r"\n\s*(unsigned\s+value;)", "Lexer::value declaration", 1)
    asg = asm.span(r"\n\s*(value = std::strtoul\(number\.c_str\(\), nullptr, 10\);)", "Lexer number conversion", 1)
    asg_c = rewrite(asg, [(r"std::strtoul\(number\.c_str\(\), nullptr, 10\)", "strtoul_result", 1, 1)], "lexer value", manifest)
    ty = re.match(r"(\w+)\s+value;", decl).group(1)
    getn = asm.span(r"\n\s*((?:unsigned|int|long|unsigned long|uint32_t) getNumber\(\) const \{ return value; \})", "Lexer::getNumber", 1)
    rty = re.match(r"([\w ]+?) getNumber", getn).group(1)
    t = ("static int parse_literal(bool minus, unsigned long strtoul_result) {\n"
         "  %s value; /* Lexer::value */\n  %s\n  %s lexer_value = value; /* Lexer::getNumber() */\n"
         "  /* Parser::parseInteger body */\n  %s\n}\n") % (ty, asg_c, rty, b)
    return t


LEX_NUMBER_LOOP_CONTRACT = (
    "\n    __CPROVER_assigns(lex_pos, lex_eof, lastChar, num_len, currentCharNumber, __CPROVER_object_whole(num_buf))\n"
    "    __CPROVER_loop_invariant(num_len >= 1 && num_len < LEX_NMAX && lex_pos >= 1 && lex_pos <= lex_n)\n"
    "    __CPROVER_loop_invariant(num_len == lex_pos - __CPROVER_loop_entry(lex_pos) + 1)\n"
    "    __CPROVER_loop_invariant(lex_k >= num_len || num_buf[lex_k] == lex_in[__CPROVER_loop_entry(lex_pos) - 1 + lex_k])\n"
    "    __CPROVER_loop_invariant(lex_k >= num_len || (num_buf[lex_k] >= '0' && num_buf[lex_k] <= '9'))\n"
    "    __CPROVER_loop_invariant(lastChar == lex_in[lex_pos - 1])\n")


def lexNumber(manifest):
    """Lexer::readChar and the number arm of Lexer::readToken (the digit-collecting loop), as C over a symbolic
    input buffer.  std::string number -> num_buf/num_len (append only); the istream -> lex_in/lex_pos/lex_n;
    currentLine (diagnostic text) is dropped; strtoul is the ghost call lex_strtoul() which records what it was given."""
    asm = Source("hexasm.hpp", manifest)
    rc, _, _ = asm.block_after(r"int readChar\(\) \{", "Lexer::readChar")
    rc = rewrite(rc, [
        (r"file->get\(lastChar\);", "if (lex_pos < lex_n) { lastChar = lex_in[lex_pos]; lex_eof = 0; } else { lex_eof = 1; } lex_pos++;", 1, 1),
        (r"currentLine \+= lastChar;", "/* currentLine += lastChar: diagnostic text, dropped */;", 1, 1),
        (r"file->eof\(\)", "lex_eof", 1, 1),
        (r"\bEOF\b", "(-1)", 1, 1),
    ], "Lexer::readChar", manifest)
    leftover_check(rc, "Lexer::readChar")
    b, _, _ = asm.block_after(r"if \(std::isdigit\(lastChar\)\) \{", "Lexer::readToken number arm")
    b = rewrite(b, [
        (r"std::string number\(1, lastChar\);", "num_len = 0; num_buf[num_len++] = lastChar;", 1, 1),
        (r"while \(std::isdigit\(readChar\(\)\)\) \{", lambda m: "while (lex_isdigit(readChar()))" + LEX_NUMBER_LOOP_CONTRACT + "    {", 1, 1),
        (r"number \+= lastChar;", "num_buf[num_len++] = lastChar;", 1, 1),
        (r"value = std::strtoul\(number\.c_str\(\), nullptr, 10\);", "lex_strtoul(); /* value = strtoul(number.c_str(), 0, 10): parse_literal.lemma */", 1, 1),
        (r"return Token::NUMBER;", "return;", 1, 1),
    ], "Lexer number arm", manifest)
    leftover_check(b, "Lexer number arm")
    return "static int readChar(void) " + rc + "\nstatic void lex_number(void) " + b + "\n"

"""tbunit -- the extracted hextb translation unit (Verilated `hex` + hextb.cpp's run/handleSyscall/load) shared by C13 and C06."""
import hv
import asmx
import simx
import simunit
import tbx
import vl2c

SOURCES = ["verilog/hex_pkg.sv", "verilog/hex.sv", "verilog/processor.sv", "verilog/memory.sv"]

TB_PRELUDE = r"""
#include <stdlib.h>
#include "cprelude.h"
#include "isa.h"
#ifndef TB_NO_GLOBALS
bool verif_thrown;
#endif
static Vhex__Syms S;
#define RTL_WORDS Vhex_memory_memory_q_DEPTH
#define P (&S.TOP__hex__u_processor)
#define M (&S.TOP__hex__u_memory)
/* hextb's accesses to top->hex->u_memory->memory_q[e]: VlUnpacked::operator[] performs no bounds check, so the
   index is asserted to be inside the array */
#define TBMEM(e) (S.TOP__hex__u_memory.memory_q[vl_idx((e), RTL_WORDS)])
#define TB_TRACE() ((void)0)
"""

TB_POWER_ON = r"""
#ifdef HEX_CBMC
void vl_fatal(const char *msg) { __CPROVER_assert(0, "Verilator VL_FATAL (region did not converge) unreachable"); }
uint32_t nondet_u32(void); uint64_t nondet_u64(void); size_t nondet_size(void); int nondet_int(void); _Bool nondet_bool(void);
IData vl_rand_reset_i(int w) { IData v = nondet_u32(); return w >= 32 ? v : (v & ((1u << w) - 1u)); }
QData vl_rand_reset_q(int w) { QData v = nondet_u64(); return w >= 64 ? v : (v & ((1ull << w) - 1ull)); }
/* every power-on state: all Verilated fields arbitrary within their declared widths (the generated _ctor_var_reset
   functions with VL_RAND_RESET_I = nondet: over-approximates randReset(2) with any seed), memory a fresh object */
static void power_on(void) {
  size_t n = nondet_size(); __CPROVER_assume(n >= RTL_WORDS && n <= 2 * (size_t)RTL_WORDS);
  S.TOP__hex__u_memory.memory_q = malloc(n * 4); __CPROVER_assume(S.TOP__hex__u_memory.memory_q != NULL);
  S.TOP.vlSymsp = &S; S.TOP__hex.vlSymsp = &S; S.TOP__hex__u_memory.vlSymsp = &S; S.TOP__hex__u_processor.vlSymsp = &S;
  S.TOP.hex = &S.TOP__hex;
  Vhex___024root___ctor_var_reset(&S.TOP); Vhex_hex___ctor_var_reset(&S.TOP__hex);
  Vhex_memory___ctor_var_reset(&S.TOP__hex__u_memory); Vhex_processor___ctor_var_reset(&S.TOP__hex__u_processor);
  S.TOP.__VactContinue = vl_rand_reset_i(1); S.TOP.__VstlIterCount = nondet_u32(); S.TOP.__VicoIterCount = nondet_u32(); S.TOP.__VactIterCount = nondet_u32();
#define VL_E_(k) (nondet_int() & 1)
  VL_TV_ALL(S.TOP.__VstlTriggered, VL_E_); VL_TV_ALL(S.TOP.__VicoTriggered, VL_E_); VL_TV_ALL(S.TOP.__VactTriggered, VL_E_); VL_TV_ALL(S.TOP.__VnbaTriggered, VL_E_);
#undef VL_E_
  S.__Vm_didInit = false;
}
#endif
"""


def unit_text(chk, syscall_entry_hook="((void)0)", with_sim_globals=False):
    m = chk.manifest
    vtext, info = vl2c.verilate(SOURCES, "hex", "Vhex", chk.out, m, extra_args=["--trace"])  # generator options of the CMake build
    pre = "#define VL_IDX(e, n) vl_idx((e), (n))\n#include <stdint.h>\nstatic inline uint32_t vl_idx(uint32_t e, uint32_t n) { __CPROVER_assert(e < n, \"RTL memory index below MEM_DEPTH\"); return e; }\n"
    consts, rb, re_ = tbx.constants(m)
    text = pre + vtext + TB_PRELUDE + consts
    if not with_sim_globals:
        en, _ = asmx.enums(m)
        io, in_ty = simx.io_fns(m)
        text += en + simunit.GHOST_IO + io
    text += "#define TB_SYSCALL_ENTRY(sc) %s\n" % syscall_entry_hook
    text += tbx.handleSyscall(m)
    rp, prologue = tbx.run_parts(m)
    text += rp
    # small free helper functions of hextb.cpp that the extracted bodies call (e.g. a reset-window predicate)
    protos, defs = hv.pull_helpers(text, "hextb.cpp", m)
    if protos:
        i = text.index("#define TB_SYSCALL_ENTRY")
        text = text[:i] + protos + text[i:] + defs
    text += TB_POWER_ON
    return text, {"RESET_BEGIN": rb, "RESET_END": re_, "prologue": prologue["stmts"], "extra_locals": prologue["extra_locals"]}

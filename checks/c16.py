"""C16 -- processor.v is behaviourally identical to processor.sv.

processor.sv (+hex_pkg.sv), verilog/processor.v and synth/processor.v are each Verilated with --top-module processor,
converted to C (lib/vl2c.py) and compared on a product harness: from equal architectural registers and equal, arbitrary
previous inputs, for every new input vector (i_clk, i_rst edges included, i_f_data, i_d_data all symbolic): all outputs
are equal after settling and all registers and outputs are equal after the evaluation.  No preconditions.
"""
import json
import os
import re

import hv
import vl2c

PID = "C16"
OUTS = ["o_f_valid", "o_f_addr", "o_d_valid", "o_d_we", "o_d_addr", "o_d_data", "o_syscall_valid", "o_syscall"]
INS = ["i_clk", "i_rst", "i_f_data", "i_d_data"]
REGS = ["pc_q", "areg_q", "breg_q", "oreg_q"]


def reg_paths(info, prefix, var):
    """where the four architectural registers live in this model's structs"""
    res = {}
    for sname, members in info["members"].items():
        for m in members:
            mm = re.match(r"(?:\w+\s+)(\w*?)(pc_q|areg_q|breg_q|oreg_q)$", m)
            if not mm:
                continue
            field = mm.group(1) + mm.group(2)
            if sname.endswith("___024root"):
                path = "%s.TOP.%s" % (var, field)
            elif sname.endswith("__Syms"):
                continue
            else:
                inst = sname[len(prefix) + 1:]
                path = "%s.TOP__%s.%s" % (var, inst, field)
            res.setdefault(mm.group(2), []).append(path)
    for r in REGS:
        if len(res.get(r, [])) != 1:
            raise hv.ExtractionError("model %s: register %s found %d times (%s)" % (prefix, r, len(res.get(r, [])), res.get(r)))
    return {r: res[r][0] for r in REGS}


def model_setup(info, prefix, var):
    lines = []
    mods = [n for n in info["members"] if not n.endswith("__Syms")]
    for n in mods:
        if n.endswith("___024root"):
            lines.append("%s.TOP.vlSymsp = &%s;" % (var, var))
        else:
            inst = n[len(prefix) + 1:]
            lines.append("%s.TOP__%s.vlSymsp = &%s;" % (var, inst, var))
            lines.append("%s.TOP.%s = &%s.TOP__%s;" % (var, inst, var, inst))
    for f in info["ctor_var_reset"]:
        mod = f[:-len("___ctor_var_reset")]
        tgt = "%s.TOP" % var if mod.endswith("___024root") else "%s.TOP__%s" % (var, mod[len(prefix) + 1:])
        lines.append("%s(&%s);" % (f, tgt))
    lines.append("%s.__Vm_didInit = false;" % var)
    return "\n  ".join(lines)


def harness(name, ia, pa, ib, pb):
    ra = reg_paths(ia, pa, "A")
    rb = reg_paths(ib, pb, "B")
    cmpo = "\n  ".join('__CPROVER_assert(A.TOP.%s == B.TOP.%s, "C16: output %s equal " TAG);' % (o, o, o) for o in OUTS)
    cmpr = "\n  ".join('__CPROVER_assert(%s == %s, "C16: register %s equal after the evaluation");' % (ra[r], rb[r], r) for r in REGS)
    eqr = "\n  ".join("%s = %s;" % (rb[r], ra[r]) for r in REGS)
    return r"""
static %(pa)s__Syms A; static %(pb)s__Syms B;
void h_%(name)s(void) {
  %(sa)s
  %(sb)s
  /* identical architectural state (arbitrary, width-clean from the generated reset code) */
  %(eqr)s
  uint32_t cex_pc = %(rapc)s, cex_areg = %(raa)s, cex_breg = %(rab)s, cex_oreg = %(rao)s;
  /* identical previous inputs, arbitrary */
  uint8_t cex_clk0 = nondet_u8() & 1, cex_rst0 = nondet_u8() & 1, cex_f0 = nondet_u8(); uint32_t cex_d0 = nondet_u32();
  A.TOP.i_clk = cex_clk0; B.TOP.i_clk = cex_clk0; A.TOP.i_rst = cex_rst0; B.TOP.i_rst = cex_rst0;
  A.TOP.i_f_data = cex_f0; B.TOP.i_f_data = cex_f0; A.TOP.i_d_data = cex_d0; B.TOP.i_d_data = cex_d0;
  %(pa)s_eval_step(&A); %(pb)s_eval_step(&B);   /* first evaluation: generated static/initial/settle code, no edge */
#define TAG "after settling"
  %(cmpo)s
#undef TAG
  __CPROVER_assert(%(rapc)s == cex_pc && %(rbpc)s == cex_pc && %(raa)s == cex_areg && %(rba)s == cex_areg, "C16: settling does not change registers");
  /* arbitrary next input vector: any combination of clock and reset edges */
  uint8_t cex_clk1 = nondet_u8() & 1, cex_rst1 = nondet_u8() & 1, cex_f1 = nondet_u8(); uint32_t cex_d1 = nondet_u32();
  A.TOP.i_clk = cex_clk1; B.TOP.i_clk = cex_clk1; A.TOP.i_rst = cex_rst1; B.TOP.i_rst = cex_rst1;
  A.TOP.i_f_data = cex_f1; B.TOP.i_f_data = cex_f1; A.TOP.i_d_data = cex_d1; B.TOP.i_d_data = cex_d1;
  %(pa)s_eval_step(&A); %(pb)s_eval_step(&B);
  %(cmpr)s
#define TAG "after the evaluation"
  %(cmpo)s
#undef TAG
  __CPROVER_assert(A.TOP.__Vtrigrprev__TOP__i_clk == B.TOP.__Vtrigrprev__TOP__i_clk && A.TOP.__Vtrigrprev__TOP__i_rst == B.TOP.__Vtrigrprev__TOP__i_rst, "C16: edge history equal (inductive)");
#ifdef COVER
  __CPROVER_cover(cex_clk0 == 0 && cex_clk1 == 1 && cex_rst1 == 0 && %(rapc)s != cex_pc);
  __CPROVER_cover(cex_rst0 == 0 && cex_rst1 == 1 && cex_pc != 0 && %(rapc)s == 0);
  __CPROVER_cover(cex_clk0 == 1 && cex_clk1 == 1 && cex_rst1 == cex_rst0);
#endif
#ifdef CANARY
  __CPROVER_assert(0, "canary: harness end reachable");
#endif
}
""" % dict(name=name, pa=pa, pb=pb, sa=model_setup(ia, pa, "A"), sb=model_setup(ib, pb, "B"), eqr=eqr, cmpo=cmpo, cmpr=cmpr,
           rapc=ra["pc_q"], raa=ra["areg_q"], rab=ra["breg_q"], rao=ra["oreg_q"], rbpc=rb["pc_q"], rba=rb["areg_q"])


COMMON = r"""
#include <stdlib.h>
void vl_fatal(const char *msg) { __CPROVER_assert(0, "Verilator VL_FATAL (region did not converge) unreachable"); }
uint32_t nondet_u32(void); uint64_t nondet_u64(void); uint8_t nondet_u8(void);
IData vl_rand_reset_i(int w) { IData v = nondet_u32(); return w >= 32 ? v : (v & ((1u << w) - 1u)); }
QData vl_rand_reset_q(int w) { QData v = nondet_u64(); return w >= 64 ? v : (v & ((1ull << w) - 1ull)); }
"""


def build_units(chk):
    units = {}
    for name, vfile, pb in (("verilog", "verilog/processor.v", "Vpv"), ("synth", "synth/processor.v", "Vps")):
        ta, ia = vl2c.verilate(["verilog/hex_pkg.sv", "verilog/processor.sv"], "processor", "Vpsv", os.path.join(chk.out, name), chk.manifest)
        tb, ib = vl2c.verilate([vfile], "processor", pb, os.path.join(chk.out, name), chk.manifest, with_prelude=False)
        units[name] = chk.write("c16_%s.c" % name, ta + tb + COMMON + harness(name, ia, "Vpsv", ib, pb))
    return units


def native(chk):
    """one natively built executable holding the Verilated processor.sv and both processor.v copies"""
    d = os.path.join(chk.out, "native")
    os.makedirs(d, exist_ok=True)
    libs = []
    for prefix, srcs in (("Nsv", ["verilog/hex_pkg.sv", "verilog/processor.sv"]), ("Nv", ["verilog/processor.v"]), ("Ns", ["synth/processor.v"])):
        md = os.path.join(d, prefix)
        cmd = ["verilator", "--cc", "--build", "-j", "4", "--top-module", "processor", "--prefix", prefix, "-Wno-fatal", "-Wno-lint", "--public-flat-rw",
               "--Mdir", md] + [os.path.join(hv.REPO, s) for s in srcs]
        rc, o, e, _ = hv.run(cmd, timeout=900)
        if rc != 0:
            raise hv.Infra("native verilator build failed (%s): %s" % (prefix, (e or o)[-2000:]))
        libs.append((md, prefix))
    exe = os.path.join(d, "c16_native")
    inc = []
    for md, prefix in libs:
        inc += ["-I", md]
    objs = []
    for md, prefix in libs:
        objs += [os.path.join(md, "%s__ALL.a" % prefix)]
    vinc = "/usr/share/verilator/include"
    cmd = ["g++", "-O1", "-w", "-std=c++17", "-I", vinc, "-I", vinc + "/vltstd"] + inc + [os.path.join(hv.VERIF, "native", "c16_native.cpp")] + objs + \
          [os.path.join(libs[0][0], "libverilated.a")] + ["-pthread", "-o", exe]
    rc, o, e, _ = hv.run(cmd, timeout=600)
    if rc != 0:
        # libverilated.a location differs between verilator builds: compile the runtime sources directly
        cmd = ["g++", "-O1", "-w", "-std=c++17", "-I", vinc, "-I", vinc + "/vltstd"] + inc + [os.path.join(hv.VERIF, "native", "c16_native.cpp")] + objs + \
              [vinc + "/verilated.cpp", vinc + "/verilated_threads.cpp", "-pthread", "-o", exe]
        rc, o, e, _ = hv.run(cmd, timeout=600)
        if rc != 0:
            raise hv.Infra("native link failed: " + e[-2500:])
    return exe


def replay_vec(exe, which, v):
    args = [exe, "replay", which] + [str(v[k]) for k in ("pc", "areg", "breg", "oreg", "clk0", "rst0", "f0", "d0", "clk1", "rst1", "f1", "d1")]
    rc, o, e, _ = hv.run(args, timeout=60)
    try:
        return json.loads(o)
    except Exception:
        return {"ok": None, "error": (o + e)[-500:]}


def main(chk, replay_file):
    tier = chk.tier
    units = build_units(chk)
    chk.functions = ["Verilator-generated C for verilog/processor.sv, verilog/processor.v, synth/processor.v (eval_step, initial/settle, eval regions)"]
    chk.trusted = ["CBMC 6.11.0 + MiniSat", "Verilator 5.006 translation and scheduling are the semantics of both sources", "lib/vl2c.py rule list and VL_* helper prelude"]
    chk.assumptions = ["sequence-level equivalence = induction over evaluations: the harness state (registers, previous inputs = edge history) is arbitrary and re-established",
                       "Verilator convergence loops unwound 4 times with unwinding assertions; -Wno-fatal/-Wno-lint for the width warnings of the sv2v output",
                       "'same design' for the two shipped copies is decided behaviourally (each proved equivalent to processor.sv), not textually"]
    if replay_file:
        exe = native(chk)
        d = json.load(open(replay_file))
        r = replay_vec(exe, d["which"], d["vector"])
        print(json.dumps(r))
        return 0 if r.get("ok") else 1
    J = hv.Job
    jobs = []
    for name, unit in units.items():
        jobs += [J("%s_processor_v.equiv" % name, unit, "h_" + name, unwind=4, functions=["processor.sv eval_step", "%s/processor.v eval_step" % name],
                   note="all register values x all old/new input vectors incl. clock and reset edges"),
                 J("%s_processor_v.canary" % name, unit, "h_" + name, unwind=4, defines=["CANARY"], kind="canary", checks=[]),
                 J("%s_processor_v.cover" % name, unit, "h_" + name, unwind=4, defines=["COVER"], kind="cover", cover=True, checks=[])]
        if tier == "thorough":
            jobs.append(J("%s_processor_v.equiv@kissat" % name, unit, "h_" + name, unwind=4, solver=["--external-sat-solver", "kissat"], stop_on_fail=True, timeout=3000, note="second back end: kissat (CBMC's SMT2 conversion aborts with map::at on the Verilator units, so cvc5/z3 are unusable here)"))
    chk.jobs = jobs
    hv.run_jobs(jobs, chk.out)
    exe = native(chk)
    n = 200000 if tier == "quick" else 20000000
    rc, o, e, secs = hv.run([exe, "sweep", str(chk.seed), str(n)], timeout=3000)
    try:
        sw = json.loads(o)
    except Exception:
        raise hv.Infra("native sweep failed: " + (o + e)[-800:])
    sw["stage"] = "three natively Verilated models stepped in lock-step on seeded register states and input sequences"
    sw["secs"] = round(secs, 1)
    chk.native.append(sw)
    if sw.get("mismatches", 0):
        p = chk.replay_path("native")
        json.dump({"property": PID, "obligation": "native lock-step sweep", "which": sw["first"]["which"], "vector": sw["first"]["vector"], "real_code_result": sw["first"]}, open(p, "w"), indent=1)
        chk.add_violation("native-sweep", p, "processor.v (%s) differs from processor.sv: %s" % (sw["first"]["which"], sw["first"].get("why")), True)
    for j in jobs:
        r = j.result
        if j.kind != "proof" or r["status"] != "failed":
            continue
        which = j.name.split("_")[0]
        for f in r["failed"]:
            cex = f.get("cex", {})
            name = j.name + ":" + f["name"]
            p = chk.replay_path(which + "-" + f["name"])
            v = None
            try:
                v = {k: hv.parse_c_int(cex["cex_" + k]) for k in ("pc", "areg", "breg", "oreg", "clk0", "rst0", "f0", "d0", "clk1", "rst1", "f1", "d1")}
            except (KeyError, ValueError):
                # the failure may be before the second input vector exists
                try:
                    v = {k: hv.parse_c_int(cex.get("cex_" + k, "0")) for k in ("pc", "areg", "breg", "oreg", "clk0", "rst0", "f0", "d0", "clk1", "rst1", "f1", "d1")}
                except ValueError:
                    v = None
            if v is not None:
                rr = replay_vec(exe, which, v)
                if rr.get("ok") is False:
                    json.dump({"property": PID, "obligation": name, "desc": f["desc"], "which": which, "vector": v, "real_code_result": rr, "how": "./check C16 --replay " + p}, open(p, "w"), indent=1)
                    chk.add_violation(name, p, "%s; native models: %s" % (f["desc"], rr.get("why")), True)
                    continue
            json.dump({"property": PID, "obligation": name, "desc": f["desc"], "verifier_counterexample": cex}, open(p, "w"), indent=1)
            chk.add_violation(name, p, f["desc"], False)
    return chk.finish()

"""C04 -- assembler prefix encoding reconstructs every 32-bit operand exactly.

Units (all text extracted from /repo/hexasm.hpp on every run):
  numNibbles          function contract + loop contract (invariant, decreases), all 2^32 values
  InstrImm_getSize    contract, checked against numNibbles' *contract* (call replaced)
  emit_instr          instruction arm of CodeGen::emitProgramBin, contract: `size` bytes that the
                      ISA prefix rule (spec/isa.h) decodes to (opcode(token), value)
  roundtrip           top-level lemma over the real bodies: for all int v, all 12 mnemonics:
                      decode(emit(v, getSize(v))) == v mod 2^32, prefix bytes are PFIX/NFIX, last is
                      the mnemonic's opcode, operand register clear afterwards
  parse_literal       Lexer `unsigned value = strtoul()` narrowing + Parser::parseInteger negation
"""
import re
import json
import os
import random

import hv
import asmx

PID = "C04"
IMM_TOKENS = ["LDAM", "LDBM", "STAM", "LDAC", "LDBC", "LDAP", "LDAI", "LDBI", "STAI", "BR", "BRZ", "BRN"]

PRELUDE = r"""
#include "cprelude.h"
#include "isa.h"
bool verif_thrown;
#define VERIF_RET
/* ostream::put stub: records the byte (trusted: put() appends exactly one byte) */
static uint8_t out_buf[8];
static size_t out_len;
static int byteOffset;
#define OUT_PUT(c) do { __CPROVER_assert(out_len < 8, "emitted more than 8 bytes for one instruction"); out_buf[out_len < 8 ? out_len : 7] = (uint8_t)(c); out_len++; } while (0)
/* spec predicate used in contracts: the ISA's prefix rule delivers (opc, val) from these n bytes */
static bool spec_delivers(const uint8_t *b, size_t n, unsigned opc, uint32_t val) {
  unsigned o = 0; uint32_t v = 0;
  return n >= 1 && n <= 8 && isa_decode_prefix(b, n, &o, &v) && o == opc && v == val;
}
"""

HARNESS = r"""
#ifdef HEX_CBMC
int nondet_int(void); unsigned nondet_unsigned(void); unsigned long nondet_ulong(void); _Bool nondet_bool(void);
size_t nondet_size(void);

void h_numNibbles(void) { int v = nondet_int(); numNibbles(v); }
void h_getSize(void) { int v = nondet_int(); InstrImm_getSize(v); }
void h_emit_instr(void) { Token t = (Token)nondet_int(); int v = nondet_int(); size_t s = nondet_size(); emit_instr(t, v, s); }

static bool is_imm_token(Token t) {
  return t == T_LDAM || t == T_LDBM || t == T_STAM || t == T_LDAC || t == T_LDBC || t == T_LDAP ||
         t == T_LDAI || t == T_LDBI || t == T_STAI || t == T_BR || t == T_BRZ || t == T_BRN;
}
/* specification-side opcode table (ISA document), independent of tokenToInstr */
static unsigned spec_opcode(Token t) {
  return t == T_LDAM ? I_LDAM : t == T_LDBM ? I_LDBM : t == T_STAM ? I_STAM : t == T_LDAC ? I_LDAC : t == T_LDBC ? I_LDBC :
         t == T_LDAP ? I_LDAP : t == T_LDAI ? I_LDAI : t == T_LDBI ? I_LDBI : t == T_STAI ? I_STAI : t == T_BR ? I_BR :
         t == T_BRZ ? I_BRZ : I_BRN;
}

/* top-level lemma of the property, over the real bodies, full symbolic domain */
void h_roundtrip(void) {
  int cex_value = nondet_int();
  Token cex_token = (Token)nondet_int();
  __CPROVER_assume(is_imm_token(cex_token));
  out_len = 0; byteOffset = 0; verif_thrown = 0;
  size_t size = InstrImm_getSize(cex_value);
  __CPROVER_assert(size >= 1 && size <= 8, "C04: encoding length is 1..8 bytes");
  if (size >= 1 && size <= 8) {
    emit_instr(cex_token, cex_value, size);
    __CPROVER_assert(!verif_thrown, "C04: no error raised for an immediate mnemonic");
    __CPROVER_assert(out_len == size, "C04: emitted byte count equals the directive size");
    unsigned opc = 0; uint32_t operand = 0;
    bool ok = out_len >= 1 && out_len <= 8 && isa_decode_prefix(out_buf, out_len, &opc, &operand);
    __CPROVER_assert(ok, "C04: bytes are zero or more PFIX/NFIX followed by one instruction byte");
    __CPROVER_assert(!ok || opc == spec_opcode(cex_token), "C04: instruction byte carries the mnemonic's opcode");
    __CPROVER_assert(!ok || operand == (uint32_t)cex_value, "C04: prefix chain delivers exactly the operand value (mod 2^32), oreg clear afterwards");
  }
#ifdef CANARY
  __CPROVER_assert(0, "canary: harness end reachable");
#endif
}

/* literal path: decimal literal n (0 <= n < 2^32) and '-' n (0 <= n <= 2^31) */
void h_parse_literal(void) {
  unsigned long cex_n = nondet_ulong();
  _Bool cex_minus = nondet_bool();
  __CPROVER_assume(cex_minus ? cex_n <= 2147483648ul : cex_n <= 4294967295ul);
  /* assumed libc contract: strtoul on the digit string of n returns n (n < 2^64) */
  int r = parse_literal(cex_minus, cex_n);
  uint32_t expect = cex_minus ? (uint32_t)(0u - (uint32_t)cex_n) : (uint32_t)cex_n;
  __CPROVER_assert((uint32_t)r == expect, "C04: literal value reaches the encoder unchanged (mod 2^32)");
#ifdef CANARY
  __CPROVER_assert(0, "canary: harness end reachable");
#endif
}

void h_cover(void) {
  int v = nondet_int();
  size_t s = InstrImm_getSize(v);
  __CPROVER_cover(s == 1); __CPROVER_cover(s == 2 && v < 0); __CPROVER_cover(s == 2 && v > 0);
  __CPROVER_cover(s == 3); __CPROVER_cover(s == 4); __CPROVER_cover(s == 5); __CPROVER_cover(s == 6);
  __CPROVER_cover(s == 7); __CPROVER_cover(s == 8 && v > 0); __CPROVER_cover(s == 8 && v < 0);
}

#endif /* HEX_CBMC */
/* exported for the native fidelity run */
int X_numNibbles(int v) { return numNibbles(v); }
size_t X_getSize(int v) { return InstrImm_getSize(v); }
size_t X_emit(int tok_index, int v, size_t size, uint8_t *dst) {
  static const Token toks[12] = {T_LDAM, T_LDBM, T_STAM, T_LDAC, T_LDBC, T_LDAP, T_LDAI, T_LDBI, T_STAI, T_BR, T_BRZ, T_BRN};
  out_len = 0; byteOffset = 0; verif_thrown = 0;
  emit_instr(toks[tok_index], v, size);
  for (size_t i = 0; i < out_len && i < 8; i++) dst[i] = out_buf[i];
  return out_len;
}
int X_parse_literal(int minus, unsigned long n) { return parse_literal(minus, n); }
"""


def build_unit(chk):
    m = chk.manifest
    en, _ = asmx.enums(m)
    text = PRELUDE + en + asmx.token_fns(m) + asmx.numNibbles(m) + asmx.getSize(m) + asmx.emit_instr(m) + asmx.parseInteger(m) + HARNESS
    return chk.write("c04_unit.c", text)


LEX_PRELUDE = r"""
/* GENERATED on every run from /repo/hexasm.hpp (Lexer::readChar, number arm of Lexer::readToken) */
#include <stddef.h>
#include <stdint.h>
#define LEX_NMAX 64
static const char *lex_in; static size_t lex_n, lex_pos; static int lex_eof;
static char lastChar; static size_t currentCharNumber;
static char num_buf[LEX_NMAX]; static size_t num_len;
static size_t lex_k;                       /* ghost index: stands for every position of the digit string */
static size_t strtoul_len; static char strtoul_at_k; static int strtoul_calls;   /* ghost: what strtoul was handed */
static int lex_isdigit(int c) { return c >= '0' && c <= '9'; }
static void lex_strtoul(void) { strtoul_calls++; strtoul_len = num_len; if (lex_k < num_len) strtoul_at_k = num_buf[lex_k]; }
"""

LEX_HARNESS = r"""
/* the number arm is entered with lastChar = a digit of the source, the stream positioned behind it */
void h_lex_number(void) {
  size_t n = nondet_size(); __CPROVER_assume(n >= 1 && n <= LEX_NMAX - 2);
  char *src = malloc(n); __CPROVER_assume(src != 0);
  lex_in = src; lex_n = n;
  size_t start = nondet_size(); __CPROVER_assume(start >= 1 && start <= n);
  lex_pos = start; lastChar = lex_in[start - 1]; __CPROVER_assume(lex_isdigit(lastChar));
  lex_k = nondet_size(); strtoul_calls = 0; currentCharNumber = nondet_size();
  lex_number();
  __CPROVER_assert(strtoul_calls == 1, "C04: the digit string is converted exactly once");
  __CPROVER_assert(strtoul_len >= 1 && strtoul_len == lex_pos - start, "C04: strtoul gets as many characters as the lexer consumed (one character of lookahead)");
  __CPROVER_assert(!(lex_k < strtoul_len) || strtoul_at_k == src[start - 1 + lex_k], "C04: strtoul gets the source digits unchanged, in order");
  __CPROVER_assert(!(lex_k < strtoul_len) || lex_isdigit(src[start - 1 + lex_k]), "C04: every character handed to strtoul is a decimal digit");
  __CPROVER_assert(lex_pos == n + 1 || !lex_isdigit(src[lex_pos - 1]), "C04: the digit string is maximal (the literal is not cut short)");
  __CPROVER_assert(lex_pos == n + 1 ? lastChar == (char)-1 : lastChar == src[lex_pos - 1], "C04: the lookahead character is the first one behind the literal");
#ifdef CANARY
  __CPROVER_assert(0, "canary: harness end reachable");
#endif
#ifdef COVERGOAL
  __CPROVER_assert(!(strtoul_len >= 11 && lex_k == 10 && lex_pos <= n), "covergoal: literal of 11+ digits followed by more text");
#endif
}
"""


def build_lex_unit(chk):
    """separate unit: a lexer whose number arm is not in the recognised shape leaves the encoder proofs intact"""
    text = LEX_PRELUDE + "size_t nondet_size(void);\nvoid *malloc(size_t);\n" + asmx.lexNumber(chk.manifest) + LEX_HARNESS
    if re.search(r"\bnumber\b|\bfile\b|\bcurrentLine\b", hv.strip_comments(text.split("static int readChar(void)", 1)[1].split("/* the number arm is entered", 1)[0])):
        raise hv.ExtractionError("Lexer number arm: a use of the string/stream objects is left after rewriting")
    path = chk.write("c04_lex_unit.c", text)
    rc, o, e, _ = hv.run(["goto-cc", "-DHEX_CBMC=1", "--function", "h_lex_number", path, "-o", os.path.join(chk.out, "c04_lex_probe.gb")], timeout=120)
    if rc != 0:
        raise hv.ExtractionError("Lexer number arm: extracted text is not C: " + (e or o)[-300:].replace("\n", " "))
    return path


def native(chk, unit):
    """build the extracted C natively and the real C++ harness; returns path of the replay exe.
    unit=None: real code only (used when extraction fails)."""
    exe = os.path.join(chk.out, "c04_native")
    if unit is None:
        hv.build_native(os.path.join(hv.VERIF, "native", "c04_native.cpp"), exe, extra=["-DNO_EXTRACTED"])
        return exe
    obj = os.path.join(chk.out, "c04_unit.o")
    rc, o, e, _ = hv.run(["gcc", "-O1", "-w", "-std=gnu11", "-c", "-I", os.path.join(hv.VERIF, "spec"), unit, "-o", obj], timeout=120)
    if rc != 0:
        raise hv.Infra("native build of extracted unit failed: " + e[-2000:])
    hv.build_native(os.path.join(hv.VERIF, "native", "c04_native.cpp"), exe, extra=[obj])
    return exe


def cli_stage(chk):
    """hexasm executable vs the in-process pipeline (shared with C05/C17): the source holds the boundary immediates"""
    import c05
    c05.cli_stage(chk, c05.native(chk), PID)


def literal_stage(chk, exe):
    """boundary literals, both spellings, through the real Lexer/Parser/CodeGen (needs no extracted text)"""
    rc, o, e, secs = hv.run([exe, "literals"], timeout=300)
    try:
        r = json.loads(o)
    except Exception:
        raise hv.Infra("literal stage failed: " + (o + e)[-600:])
    r["stage"] = "boundary literals (signed and unsigned spellings, +/-16^k, INT_MAX, INT_MIN, 2^32-1) through the real Lexer/Parser/CodeGen, decoded by the ISA rule"
    chk.native.append(r)
    if r.get("bad"):
        lit, tok = r["first_literal"], r["first_token"]
        rr = replay(exe, tok, 0, lit)
        p = chk.replay_path("literal_" + lit)
        json.dump({"property": PID, "obligation": "native literal stage", "token": tok, "value": None, "literal": lit, "real_code_result": rr,
                   "how": "./check C04 --replay " + p}, open(p, "w"), indent=1)
        chk.add_violation("native-literals", p, "%s %s decodes to %s" % (tok, lit, rr.get("decoded")), True)


def native_only(chk):
    """extraction failed: the proof is undecided, but the real code can still be run on the boundary inputs"""
    exe = native(chk, None)
    literal_stage(chk, exe)
    cli_stage(chk)


def replay(exe, token, value, literal=None):
    args = [exe, "replay", token, str(value)] if literal is None else [exe, "replay-literal", token, literal]
    rc, o, e, _ = hv.run(args, timeout=60)
    try:
        return json.loads(o)
    except Exception:
        return {"ok": None, "error": (o + e)[-500:]}


def main(chk, replay_file):
    tier = chk.tier
    unit = build_unit(chk)
    chk.functions = ["hexasm::numNibbles", "hexasm::InstrImm::getSize", "hexasm::CodeGen::emitProgramBin(instruction arm)",
                     "hexasm::tokenToInstr", "hexasm::instrToInstrOpc", "hexasm::tokenToInstrOpc", "hexasm::Parser::parseInteger",
                     "hexasm::Lexer number conversion"]
    chk.trusted = ["CBMC 6.11.0 + MiniSat", "extractor rules in lib/asmx.py and prelude spec/cprelude.h",
                   "spec/isa.h isa_decode_prefix (transcribed from docs/PDFs/hexb.pdf)", "ostream::put appends one byte (OUT_PUT stub)",
                   "strtoul returns the value of a decimal digit string below 2^64 (libc, stubbed as the harness input)"]
    chk.assumptions = [
        "int<->unsigned conversions are modular and >> on negative int is arithmetic (gcc/clang; CBMC models the same)",
        "int->char narrowing of the emitted byte keeps the low 8 bits (implementation-defined, gcc/clang)",
        "C++ exceptions abstracted to a ghost flag (throw = set flag and return)",
        "the literal path assumes the lexer hands strtoul the digit string unchanged (tokenisation itself is not under contract)",
        "dropped by extraction: Directive object layout, virtual dispatch of getValue()/getSize() (InstrImm only), stream state",
    ]
    if replay_file:
        exe = native(chk, unit)
        d = json.load(open(replay_file))
        r = replay(exe, d["token"], d["value"], d.get("literal"))
        print(json.dumps(r))
        return 0 if r.get("ok") else 1

    known = hv.known_findings(PID)
    J = hv.Job
    jobs = [
        J("numNibbles.contract", unit, "h_numNibbles", enforce="numNibbles", loop_contracts=asmx.NUMNIBBLES_LOOP_CONTRACT, unwind=None if asmx.NUMNIBBLES_LOOP_CONTRACT else 9,
          functions=["numNibbles"], role="aux", note="" if asmx.NUMNIBBLES_LOOP_CONTRACT else "counting loop has no recognised shape: unwound 9 times with unwinding assertions (complete: the loop is bounded by the operand width)"),
        J("getSize.contract", unit, "h_getSize", enforce="InstrImm_getSize", replace=["numNibbles"], functions=["InstrImm::getSize"], role="aux"),
        J("emit_instr.contract", unit, "h_emit_instr", enforce="emit_instr", unwind=9, functions=["emitProgramBin instruction arm"], role="aux"),
        J("roundtrip.lemma", unit, "h_roundtrip", unwind=9, functions=["numNibbles", "InstrImm::getSize", "emit_instr", "tokenToInstr"],
          note="loop-free after unwinding the <=8-iteration loops (unwinding assertions on): complete for all 2^32 values x 12 mnemonics"),
        J("parse_literal.lemma", unit, "h_parse_literal", functions=["Parser::parseInteger", "Lexer number"]),
        J("roundtrip.canary", unit, "h_roundtrip", unwind=9, defines=["CANARY"], kind="canary", checks=[]),
        J("parse_literal.canary", unit, "h_parse_literal", defines=["CANARY"], kind="canary", checks=[]),
        J("sizes.cover", unit, "h_cover", unwind=9, kind="cover", cover=True, checks=[]),
    ]
    # --- the lexer's digit-collecting loop (separate unit; an unrecognised shape keeps the assumption instead)
    lex_note = None
    try:
        lex_unit = build_lex_unit(chk)
        jobs += [
            J("lex_number.contract", lex_unit, "h_lex_number", loop_contracts=True, object_bits=12, timeout=300,
              functions=["Lexer::readChar", "Lexer::readToken (number arm)"],
              note="loop contract on the real digit loop over a symbolic source text of symbolic length (< 62 characters); ghost index instead of a quantifier"),
            J("lex_number.canary", lex_unit, "h_lex_number", loop_contracts=True, object_bits=12, defines=["CANARY"], kind="canary", checks=[], timeout=300),
            J("lex_number.cover", lex_unit, "h_lex_number", loop_contracts=True, object_bits=12, defines=["COVERGOAL"], kind="cover", cover_by_assert=True, checks=[], timeout=300),
        ]
        chk.functions += ["hexasm::Lexer::readChar", "hexasm::Lexer::readToken (number arm)"]
        chk.assumptions[3] = ("the literal path: lex_number.contract proves that strtoul receives exactly the maximal digit run of the source text "
                              "(symbolic text shorter than 62 characters; std::string modelled as an append-only buffer, the istream as an array with a position); "
                              "that strtoul returns its value is the assumed libc contract; skipping of blanks/comments before the literal is not under contract")
    except hv.ExtractionError as ex:
        lex_note = str(ex)
        chk.warnings.append("lexer number arm not in the recognised shape, lex_number.contract skipped (the assumption stands; boundary literals still run through the real lexer): " + lex_note)
    if tier == "thorough":
        jobs += [
            J("roundtrip.lemma@cvc5", unit, "h_roundtrip", unwind=9, solver=["--cvc5"], timeout=1500, note="second back end"),
            J("numNibbles.contract@cvc5", unit, "h_numNibbles", enforce="numNibbles", loop_contracts=asmx.NUMNIBBLES_LOOP_CONTRACT, unwind=None if asmx.NUMNIBBLES_LOOP_CONTRACT else 9, solver=["--cvc5"], timeout=1500, role="aux", note="second back end"),
        ]
    chk.jobs = jobs
    hv.run_jobs(jobs, chk.out)
    exe = native(chk, unit)
    literal_stage(chk, exe)
    cli_stage(chk)

    # --- fidelity: extracted C == real C++ on seeded + boundary inputs (assumption reducer)
    n = 20000 if tier == "quick" else 2000000
    rc, o, e, secs = hv.run([exe, "fidelity", str(chk.seed), str(n)], timeout=1200)
    fid = {"stage": "fidelity extracted-C vs real C++ (numNibbles, getSize, emit bytes, literal)", "samples": n, "secs": round(secs, 1)}
    try:
        fr = json.loads(o)
        fid.update(fr)
    except Exception:
        raise hv.Infra("fidelity run failed: " + (o + e)[-800:])
    chk.native.append(fid)
    if fid.get("mismatches", 1) != 0:
        raise hv.Infra("extraction fidelity mismatch (extractor bug, not a verdict): %s" % fid.get("first"))

    # --- thorough: exhaustive native sweep of the real encoder over all 2^32 values x 12 mnemonics
    sweep_fail = None
    if tier == "thorough":
        parts = 16
        step = (1 << 32) // parts
        import concurrent.futures as cf
        def part(i):
            return hv.run([exe, "sweep", str(i * step), str((i + 1) * step)], timeout=6 * 3600)
        tot = 0
        t0 = __import__("time").time()
        with cf.ThreadPoolExecutor(parts) as ex:
            for rc, o, e, s in ex.map(part, range(parts)):
                try:
                    r = json.loads(o)
                except Exception:
                    raise hv.Infra("sweep failed: " + (o + e)[-500:])
                tot += r["checked"]
                if r["bad"] and sweep_fail is None:
                    sweep_fail = r["first"]
        chk.native.append({"stage": "exhaustive native sweep of real InstrImm/emitProgramBin, all 2^32 values x 12 mnemonics", "checked": tot,
                           "exhaustive": True, "secs": round(__import__("time").time() - t0, 1), "first_bad": sweep_fail})

    # --- verdict
    failed_prop = []
    failed_aux = []
    for j in jobs:
        r = j.result
        if j.kind != "proof" or r["status"] != "failed":
            continue
        for f in r["failed"]:
            (failed_prop if j.role == "property" else failed_aux).append((j, f))
    seen = set()
    rng = random.Random(chk.seed)
    def report(value, token, oblig, literal=None, extra=""):
        key = (value, literal)
        if key in seen:
            return
        seen.add(key)
        r = replay(exe, token, value, literal)
        kf = "value=%d" % value if literal is None else "literal=%s" % literal
        if r.get("ok") is False:
            if kf in known:
                print("KNOWN-FINDING: property=%s %s %s" % (PID, kf, known[kf]))
                chk.known_printed.append(kf)
                return
            p = chk.replay_path(kf)
            json.dump({"property": PID, "obligation": oblig, "token": token, "value": value, "literal": literal, "real_code_result": r,
                       "how": "./check C04 --replay " + p}, open(p, "w"), indent=1)
            chk.add_violation(oblig, p, "%s %s decodes to %s, expected %s" % (token, literal or value, r.get("decoded"), r.get("expected")), True)
        return r

    for j, f in failed_prop:
        cex = f.get("cex", {})
        try:
            if "cex_value" in cex:
                v = hv.parse_c_int(cex["cex_value"])
                mt = __import__("re").search(r"T_(\w+)", str(cex.get("cex_token", "")))
                tok = mt.group(1) if mt and mt.group(1) in IMM_TOKENS else "LDAC"
                r = report(v, tok, j.name + ":" + f["name"])
                if r is not None and r.get("ok"):
                    # the verifier's input does not fail on the real code: undecided unless something else replays
                    chk.undecided.append("%s:%s (cex value=%d does not fail on the real code)" % (j.name, f["name"], v))
            elif "cex_n" in cex:
                nn = hv.parse_c_int(cex["cex_n"])
                mi = hv.parse_c_int(cex.get("cex_minus", "0"))
                lit = ("-" if mi else "") + str(nn)
                vv = (-nn if mi else nn)
                r = report(vv, "LDAC", j.name + ":" + f["name"], literal=lit)
                if r is not None and r.get("ok"):
                    chk.undecided.append("%s:%s (literal %s does not fail on the real code)" % (j.name, f["name"], lit))
            else:
                p = chk.replay_path(j.name)
                json.dump({"property": PID, "obligation": j.name + ":" + f["name"], "desc": f["desc"], "verifier_output": f}, open(p, "w"), indent=1)
                chk.add_violation(j.name + ":" + f["name"], p, f["desc"], False)
        except ValueError as ex:
            chk.undecided.append("%s:%s unparseable counterexample %s" % (j.name, f["name"], ex))
    if sweep_fail is not None:
        report(sweep_fail["value"], sweep_fail["token"], "native-sweep")
    # per-function contracts that fail while the complete top-level lemma holds: contract drift, not a violation
    for j, f in failed_aux:
        chk.warnings.append("%s:%s %s" % (j.name, f["name"], f["desc"]))
    return chk.finish()

"""C05 -- every label reference assembles to the address of its label.   (C17 shares this unit: see c17.py)

Code under contract (text extracted from /repo/hexasm.hpp on every run, lib/dirx.py + lib/asmx.py):
  numNibbles, instrLen (function + loop contracts), the Directive class family (getSize/getValue/setLabelValue/
  setLength/setByteOffset, generated virtual dispatch), the body of the inner loop of CodeGen::resolveLabels
  (one layout PASS over a directive list of symbolic length), the body of the loop of CodeGen::emitProgramBin,
  the constructor's size/padding arithmetic and emitBin's header word.

Obligations
  instrLen.contract        minLength <= r <= 8, operand for length r fits in r bytes, minimal above minLength
  pass.ref.{base,step,exit}    inductive invariant of a pass for a ghost reference k with target t  (encoding (b) of DESIGN 3.3)
  pass.chain.{base,step}       inductive invariant of a pass for a ghost adjacent pair: offsets chained, DATA aligned
  fixedpoint.exit          a pass that changes nothing => relative: offset+length+operand == label; absolute: operand ==
                           label>>2, unaligned => error raised; every label's value is its position
  emit.step                per directive: running offset == layout offset, exactly getSize() bytes (+ alignment zeros before
                           DATA), bytes decode (ISA prefix rule) to the directive's opcode and value; chain => invariant for i+1
  header.lemma             padding <= 3, header word * 4 == bytes emitted
  termination.bounded      BOUNDED stand-in: all programs of <= N directives reach a changeless pass within 7N+2 passes and
                           satisfy the property end-to-end
"""
import json
import os
import re

import hv
import asmx
import dirx

PID = "C05"

PRELUDE = r"""
#include "cprelude.h"
#include "isa.h"
bool verif_thrown;
#define VERIF_RET
#define NO_LABEL (-1)
#define VMAX(a, b) ((a) > (b) ? (a) : (b))
#define VMIN(a, b) ((a) < (b) ? (a) : (b))
/* value v is representable by an n-byte PFIX/NFIX chain ending in an instruction (C04's emit contract) */
#define FITS(v, n) ((n) >= 1 && (n) <= 8 && (((v) >= 0) ? ((n) == 8 || (((uint32_t)(v)) >> (4 * (n))) == 0u) \
                                                      : ((n) >= 2 && ((n) == 8 || (((uint32_t)(v)) >> (4 * (n))) == (0xFFFFFFFFu >> (4 * (n)))))))
"""

STATE = r"""
/* ---- loop state of resolveLabels / emitProgramBin (locals of the C++ functions) and ghosts ---- */
#define MAXN 100000            /* cap on the directive-list length for allocation modelling */
#define MAXOFF (11 * MAXN)     /* every directive advances the offset by at most 8 (instruction) or 4+3 (aligned DATA) */
static Directive *program; static size_t prog_n;
static int byteOffset; static bool changed, firstPass; static Directive *unaligned;
static bool ISLABEL(const Directive *d) { return d->cls == CLS_Label || d->cls == CLS_Func || d->cls == CLS_Proc; }
static bool IMM_TOKEN(Token t) { return t == T_LDAM || t == T_LDBM || t == T_STAM || t == T_LDAC || t == T_LDBC || t == T_LDAP || t == T_LDAI || t == T_LDBI || t == T_STAI || t == T_BR || t == T_BRZ || t == T_BRN; }
/* a directive as the parser / xcmp construct it and as the layout pass keeps it (constructors are not verified: assumed) */
static bool WF(const Directive *d, size_t n, bool allow_padding) {
  return ((d->cls >= CLS_Data && d->cls <= CLS_InstrOp) || (allow_padding && d->cls == CLS_Padding))
    && ((d->cls == CLS_Data) == (d->Directive_token == T_DATA))
    && ((d->cls == CLS_Label) == (d->Directive_token == T_IDENTIFIER)) && ((d->cls == CLS_Func) == (d->Directive_token == T_FUNC)) && ((d->cls == CLS_Proc) == (d->Directive_token == T_PROC))
    && ((d->cls == CLS_InstrOp) == (d->Directive_token == T_OPR)) && ((d->cls == CLS_Padding) == (d->Directive_token == T_PADDING))
    && ((d->cls != CLS_InstrImm && d->cls != CLS_InstrLabel) || IMM_TOKEN(d->Directive_token))
    && (d->cls != CLS_InstrOp || d->InstrOp_opcode == T_BRB || d->InstrOp_opcode == T_ADD || d->InstrOp_opcode == T_SUB || d->InstrOp_opcode == T_SVC)
    && (d->cls != CLS_InstrLabel || (d->InstrLabel_length >= 1 && d->InstrLabel_length <= 8 && FITS(d->InstrLabel_labelValue, d->InstrLabel_length)
                                     && (d->InstrLabel_label == NO_LABEL || (d->InstrLabel_label >= 0 && (size_t)d->InstrLabel_label < n))))
    && (d->cls != CLS_Padding || d->Padding_numBytes <= 3)
    && (!ISLABEL(d) || (d->Label_labelValue >= 0 && d->Label_labelValue <= MAXOFF))
    && (d->Directive_byteOffset >= 0 && d->Directive_byteOffset <= MAXOFF);
}
/* labelMap[name]: the directive declaring the name (names are indices).  Universally quantified well-formedness is
   instantiated at the element dereferenced here. */
static Directive *label_target(int idx) {
  __CPROVER_assert(idx >= 0 && (size_t)idx < prog_n, "label index inside the program");
  __CPROVER_assume(WF(&program[idx], prog_n, false) && ISLABEL(&program[idx]));
  return &program[idx];
}
#define LABEL_TARGET(idx) label_target(idx)
#define ALIGN4(x) (((x) & 3) ? (x) + 4 - ((x) & 3) : (x))
#define ALIGN_IF_DATA(d, x) ((d)->Directive_token == T_DATA ? ALIGN4(x) : (x))
"""

EMIT_STATE = r"""
/* ---- ostream stub for emitProgramBin: counts bytes, keeps the bytes written since `win_start` (ghost window) ---- */
static size_t out_len, win_start; static uint8_t win[16];
static void out_byte(uint8_t c) { if (out_len >= win_start && out_len - win_start < 16) win[out_len - win_start] = c; out_len++; }
#define OUT_PUT(c) out_byte((uint8_t)(c))
static void out_write(const void *p, size_t n) { __CPROVER_assert(n <= 4, "write() of at most one word"); const uint8_t *b = (const uint8_t *)p; for (size_t i = 0; i < n && i < 4; i++) out_byte(b[i]); }
#define OUT_WRITE(p, n) out_write((p), (size_t)(n))
static int dbg_pushes, dbg_name, dbg_offset;
#define DEBUGINFO_PUSH(name, off) do { dbg_pushes++; dbg_name = (name); dbg_offset = (off); } while (0)
static int list_lines; static unsigned list_off; static size_t list_size; static int list_operand; static size_t programSize;
#define LIST_LINE(off, operand, size) do { list_lines++; list_off = (off); list_operand = (operand); list_size = (size); } while (0)
/* what toString() shows as operand: InstrLabel -> labelValue (when assembled), InstrImm -> immValue */
#define TOSTRING_OPERAND(d) ((d)->cls == CLS_InstrLabel ? (d)->InstrLabel_labelValue : (d)->cls == CLS_InstrImm ? (d)->InstrImm_immValue : 0)
"""

HARNESS = r"""
#ifdef HEX_CBMC
int nondet_int(void); size_t nondet_size(void); _Bool nondet_bool(void); unsigned nondet_unsigned(void);

void h_instrLen(void) { int cex_labelOffset = nondet_int(), cex_byteOffset = nondet_int(), cex_minLength = nondet_int(); instrLen(cex_labelOffset, cex_byteOffset, cex_minLength); }
void h_numNibbles(void) { int cex_value = nondet_int(); numNibbles(cex_value); }

/* ---------- ghost state of one pass ---------- */
static size_t _i, gk, gt, gc; static int old_gk, old_gt;

static bool COMMON(void) { return _i <= prog_n && byteOffset >= 0 && byteOffset <= 11 * (int)_i; }

/* invariant for a ghost directive K = program[gk]; if K is a label reference, T = program[gt] is its target */
static bool INV_REF(void) {
  const Directive *K = &program[gk], *T = &program[gt];
  bool isref = K->cls == CLS_InstrLabel;
  int L = (gt < gk) ? T->Label_labelValue : old_gt;   /* the label value the pass reads when it visits K */
  return COMMON() && WF(K, prog_n, false) && WF(T, prog_n, false)
    && (!isref || (K->InstrLabel_label == (int)gt && ISLABEL(T)))
    /* labels: value = position once visited; unchanged-so-far tracking against the value at pass entry */
    && (!(ISLABEL(K) && gk < _i) || K->Label_labelValue == K->Directive_byteOffset)
    && (!(ISLABEL(K) && (gk >= _i || !changed)) || K->Label_labelValue == old_gk)
    && (!(ISLABEL(T) && (gt >= _i || !changed)) || T->Label_labelValue == old_gt)
    && (!(ISLABEL(T) && gt < _i) || T->Label_labelValue == T->Directive_byteOffset)
    /* DATA is aligned once placed; offsets stay inside the cap */
    && (!(K->cls == CLS_Data && gk < _i) || (K->Directive_byteOffset & 3) == 0)
    && (!(gk < _i) || K->Directive_byteOffset <= 11 * (int)gk + 3)
    /* a visited reference carries the operand computed from the label value it read */
    && (!(isref && gk < _i && !firstPass && K->InstrLabel_relative) || (long long)K->Directive_byteOffset + (long long)K->InstrLabel_length + (long long)K->InstrLabel_labelValue == (long long)L)
    && (!(isref && gk < _i && !firstPass && !K->InstrLabel_relative) || (K->InstrLabel_labelValue == (L >> 2) && (!(L & 3) || unaligned != NULL)));
}

/* completeness of the rejection: the flag `unaligned`, when set, points at an absolute reference visited in THIS pass whose
   label value (as read) is off a word boundary; ghost witness (gw, gwt, old_gwt) maintained by the step harness */
static size_t gw, gwt; static int old_gwt;
static bool INV_UNAL(void) {
  if (unaligned == NULL) return true;
  if (!(gw < prog_n && gwt < prog_n)) return false;
  const Directive *K = &program[gw], *T = &program[gwt];
  int L = (gwt < gw) ? T->Label_labelValue : old_gwt;
  return unaligned == &program[gw] && gw < _i && WF(K, prog_n, false) && WF(T, prog_n, false)
    && K->cls == CLS_InstrLabel && !K->InstrLabel_relative && K->InstrLabel_label == (int)gwt && ISLABEL(T) && (L & 3) != 0
    && (gwt < gw || !(gwt >= _i || !changed) || T->Label_labelValue == old_gwt);
}

static void pass_state(void) {
  prog_n = nondet_size(); __CPROVER_assume(prog_n >= 1 && prog_n <= MAXN);
  program = malloc(prog_n * sizeof(Directive)); __CPROVER_assume(program != NULL);
  _i = nondet_size(); gk = nondet_size(); gt = nondet_size(); gc = nondet_size();
  byteOffset = nondet_int(); changed = nondet_bool(); firstPass = nondet_bool(); old_gk = nondet_int(); old_gt = nondet_int();
  gw = nondet_size(); gwt = nondet_size(); old_gwt = nondet_int();
  { size_t u = nondet_size(); __CPROVER_assume(u < prog_n); unaligned = nondet_bool() ? &program[u] : NULL; }
  verif_thrown = false;
  __CPROVER_assume(gk < prog_n && gt < prog_n && gc < prog_n);
}

/* base: entry of a pass (outer loop: changed = false; unaligned = nullptr; int byteOffset = 0;) */
void h_pass_ref_base(void) {
  pass_state();
  __CPROVER_assume(WF(&program[gk], prog_n, false) && WF(&program[gt], prog_n, false));
  __CPROVER_assume(program[gk].cls != CLS_InstrLabel || (program[gk].InstrLabel_label == (int)gt && ISLABEL(&program[gt])));
  old_gk = program[gk].Label_labelValue; old_gt = program[gt].Label_labelValue;   /* ghost: values at pass entry */
  changed = true;                                  /* `while (changed)` was entered */
  PASS_ENTRY(); _i = 0;                            /* the extracted statements at the top of the while body */
  __CPROVER_assert(INV_REF(), "C05 pass(ref): invariant holds at pass entry");
  __CPROVER_assert(INV_UNAL(), "C05 pass(unaligned): no stale rejection flag at pass entry");
}

/* step: one iteration of the extracted loop body from an arbitrary state satisfying the invariant */
void h_pass_ref_step(void) {
  pass_state();
  __CPROVER_assume(_i < prog_n);
  __CPROVER_assume(INV_REF());
  __CPROVER_assume(WF(&program[_i], prog_n, false));            /* instantiation at the visited element */
  Directive K0 = program[gk], T0 = program[gt]; size_t i0 = _i; bool changed0 = changed; Directive *un0 = unaligned;
  int r = pass_body(&program[_i]);
  if (r < 0) { __CPROVER_assert(verif_thrown && program[i0].cls == CLS_InstrLabel && program[i0].InstrLabel_label == NO_LABEL, "C05 pass: the only error inside a pass is an undeclared label"); return; }
  _i = i0 + 1;
  __CPROVER_assert(!verif_thrown, "C05 pass: no error for declared labels");
  __CPROVER_assert(gk == i0 || (program[gk].Label_labelValue == K0.Label_labelValue && program[gk].Directive_byteOffset == K0.Directive_byteOffset &&
                   program[gk].InstrLabel_labelValue == K0.InstrLabel_labelValue && program[gk].InstrLabel_length == K0.InstrLabel_length), "C05 pass frame: only the visited directive changes (k)");
  __CPROVER_assert(gt == i0 || (program[gt].Label_labelValue == T0.Label_labelValue && program[gt].Directive_byteOffset == T0.Directive_byteOffset), "C05 pass frame: only the visited directive changes (t)");
  __CPROVER_assert(program[gk].cls == K0.cls && program[gk].Directive_token == K0.Directive_token && program[gk].InstrLabel_label == K0.InstrLabel_label &&
                   program[gk].InstrLabel_relative == K0.InstrLabel_relative && program[gk].InstrLabel_length >= K0.InstrLabel_length, "C05 pass frame: class, target, kind never change; lengths only grow");
  __CPROVER_assert(!changed0 || changed, "C05 pass: changed is sticky within a pass");
  __CPROVER_assert(un0 == NULL || unaligned != NULL, "C05 pass: unaligned is sticky within a pass");
  __CPROVER_assert(INV_REF(), "C05 pass(ref): invariant re-established after one iteration");
#ifdef CANARY
  __CPROVER_assert(0, "canary: harness end reachable");
#endif
#ifdef COVER
  COVER_GOAL(i0 == gk && K0.cls == CLS_InstrLabel && K0.InstrLabel_relative && gt < gk && !firstPass);
  COVER_GOAL(i0 == gk && K0.cls == CLS_InstrLabel && K0.InstrLabel_relative && gt > gk && !firstPass && program[gk].InstrLabel_length > K0.InstrLabel_length);
  COVER_GOAL(i0 == gk && K0.cls == CLS_InstrLabel && !K0.InstrLabel_relative && !firstPass && unaligned != NULL && un0 == NULL);
  COVER_GOAL(i0 == gt && ISLABEL(&T0) && changed && !changed0); COVER_GOAL(i0 != gk && i0 != gt && program[i0].cls == CLS_Data && (byteOffset & 3) == 0);
  COVER_GOAL(i0 == gk && K0.cls == CLS_InstrLabel && firstPass); COVER_GOAL(i0 > gk && i0 > gt && i0 > 1000);
#endif
}

void h_pass_unal_step(void) {
  pass_state();
  __CPROVER_assume(_i < prog_n && COMMON());
  __CPROVER_assume(INV_UNAL());
  __CPROVER_assume(WF(&program[_i], prog_n, false));
  size_t i0 = _i; Directive *un0 = unaligned;
  int r = pass_body(&program[_i]);
  if (r < 0) return;
  _i = i0 + 1;
  if (unaligned == &program[i0] && un0 != &program[i0]) {      /* ghost update: the flag was set by this directive */
    gw = i0; gwt = (size_t)program[i0].InstrLabel_label;
    if (gwt < prog_n && gwt > i0) old_gwt = program[gwt].Label_labelValue;   /* not yet visited: still its pass-entry value */
  }
  __CPROVER_assert(INV_UNAL(), "C05 pass(unaligned): the rejection flag always points at an absolute reference whose label value, as read in this pass, is off a word boundary");
#ifdef CANARY
  __CPROVER_assert(0, "canary: harness end reachable");
#endif
}
void h_unal_exit(void) {
  pass_state();
  __CPROVER_assume(COMMON() && INV_UNAL());
  __CPROVER_assume(_i == prog_n && !changed && !firstPass);
  __CPROVER_assert(unaligned == NULL || (program[gw].cls == CLS_InstrLabel && !program[gw].InstrLabel_relative && program[gw].InstrLabel_label == (int)gwt &&
                   (program[gwt].Label_labelValue & 3) != 0),
                   "C05: a program is rejected for alignment only if some absolute reference's label is off a word boundary in the final layout");
}

/* exit of a pass that changed nothing (the outer loop then ends): the property for reference k */
void h_fixedpoint_exit(void) {
  pass_state();
  __CPROVER_assume(INV_REF());
  __CPROVER_assume(_i == prog_n && !changed && !firstPass);      /* inner loop finished, while (changed) exits */
  const Directive *K = &program[gk], *T = &program[gt];
  if (K->cls == CLS_InstrLabel) {
    __CPROVER_assert(T->Label_labelValue == T->Directive_byteOffset, "C05: the label's value is the byte address where it was placed");
    if (K->InstrLabel_relative)
      __CPROVER_assert((long long)K->Directive_byteOffset + (long long)K->InstrLabel_length + (long long)K->InstrLabel_labelValue == (long long)T->Label_labelValue,
                       "C05: relative reference: address after the instruction + operand == label address");
    else {
      __CPROVER_assert(K->InstrLabel_labelValue == (T->Label_labelValue >> 2), "C05: absolute reference: operand is the label's word address");
      __CPROVER_assert(!(T->Label_labelValue & 3) || unaligned != NULL, "C05: absolute reference to a label off a word boundary is rejected (error raised after the loop)");
    }
    __CPROVER_assert(FITS(K->InstrLabel_labelValue, K->InstrLabel_length), "C05: the operand fits the chosen encoding length (emission precondition)");
  }
  if (ISLABEL(K)) __CPROVER_assert(K->Label_labelValue == K->Directive_byteOffset, "C05: every label's value is its position");
  if (K->cls == CLS_Data) __CPROVER_assert((K->Directive_byteOffset & 3) == 0, "C05: every DATA word is word aligned");
#ifdef CANARY
  __CPROVER_assert(0, "canary: harness end reachable");
#endif
}

/* chain invariant for a ghost adjacent pair (gc, gc+1) */
static size_t SIZE_OF(Directive *d) { return V_getSize(d); }
static bool INV_CHAIN(void) {
  Directive *C0 = &program[gc], *C1 = &program[gc + 1 < prog_n ? gc + 1 : gc];
  return COMMON() && gc + 1 < prog_n && WF(C0, prog_n, false) && WF(C1, prog_n, false)
    && (!(_i > 0) || program[0].Directive_byteOffset == 0)
    && (!(gc < _i) || (C0->Directive_byteOffset >= 0 && C0->Directive_byteOffset <= 11 * (int)gc + 3))
    && (!(gc + 1 < _i) || C1->Directive_byteOffset == ALIGN_IF_DATA(C1, C0->Directive_byteOffset + (int)SIZE_OF(C0)))
    && (!(gc + 1 == _i) || byteOffset == C0->Directive_byteOffset + (int)SIZE_OF(C0));
}
void h_pass_chain_base(void) {
  pass_state();
  __CPROVER_assume(gc + 1 < prog_n && WF(&program[gc], prog_n, false) && WF(&program[gc + 1], prog_n, false));
  changed = true; PASS_ENTRY(); _i = 0;
  __CPROVER_assert(INV_CHAIN(), "C05 pass(chain): invariant holds at pass entry");
}
void h_pass_chain_step(void) {
  pass_state();
  __CPROVER_assume(_i < prog_n);
  __CPROVER_assume(INV_CHAIN());
  __CPROVER_assume(WF(&program[_i], prog_n, false));
  size_t i0 = _i;
  int r = pass_body(&program[_i]);
  if (r < 0) return;
  _i = i0 + 1;
#ifdef DIAG
  { Directive *C0 = &program[gc], *C1 = &program[gc + 1];
    __CPROVER_assert(COMMON(), "diag COMMON"); __CPROVER_assert(WF(C0, prog_n, false), "diag WF C0"); __CPROVER_assert(WF(C1, prog_n, false), "diag WF C1");
    __CPROVER_assert(!(_i > 0) || program[0].Directive_byteOffset == 0, "diag first");
    __CPROVER_assert(!(gc < _i) || (C0->Directive_byteOffset >= 0 && C0->Directive_byteOffset <= 11 * (int)gc + 3), "diag bound");
    __CPROVER_assert(!(gc + 1 < _i) || C1->Directive_byteOffset == ALIGN_IF_DATA(C1, C0->Directive_byteOffset + (int)SIZE_OF(C0)), "diag chain");
    __CPROVER_assert(!(gc + 1 == _i) || byteOffset == C0->Directive_byteOffset + (int)SIZE_OF(C0), "diag head"); }
#endif
  __CPROVER_assert(INV_CHAIN(), "C05 pass(chain): directives laid out in source order without overlap, DATA aligned (invariant re-established)");
#ifdef CANARY
  __CPROVER_assert(0, "canary: harness end reachable");
#endif
}

/* ---------- termination: a pass that grows no reference moves no label (unbounded in program length) ----------
   E (exit state of any earlier pass; proved by pass.chain / pass.ref for every element): stored offsets are chained with
   the current sizes, every label's value is its stored offset.  Invariant J of the next pass: while no reference has
   grown, the running offset reproduces the stored offset of the directive about to be visited and `changed` is false.
   At the end: changed => some length strictly grew.  Lengths never shrink and are at most 8 (pass.ref.step frame), so the
   sum of (8 - length) strictly decreases in every pass that continues: at most 7n + 2 passes (the sum is paper glue). */
static bool grown;
static bool INV_PROGRESS(void) {
  return COMMON() && (grown || (!changed && (_i == prog_n || ALIGN_IF_DATA(&program[_i], byteOffset) == program[_i].Directive_byteOffset)));
}
void h_progress_base(void) {
  pass_state();
  __CPROVER_assume(WF(&program[0], prog_n, false) && program[0].Directive_byteOffset == 0);   /* E: the first directive sits at 0 */
  changed = true; PASS_ENTRY(); _i = 0; grown = false; firstPass = false;
  __CPROVER_assert(INV_PROGRESS(), "C05 termination: progress invariant holds at pass entry");
}
void h_progress_step(void) {
  pass_state();
  grown = nondet_bool(); firstPass = false;
  __CPROVER_assume(_i < prog_n);
  __CPROVER_assume(INV_PROGRESS());
  Directive *D = &program[_i];
  __CPROVER_assume(WF(D, prog_n, false));
  /* E instantiated at the visited directive and its successor */
  __CPROVER_assume(!ISLABEL(D) || D->Label_labelValue == D->Directive_byteOffset);
  size_t size0 = V_getSize(D);
  __CPROVER_assume(_i + 1 >= prog_n || (WF(&program[_i + 1], prog_n, false) &&
                   program[_i + 1].Directive_byteOffset == ALIGN_IF_DATA(&program[_i + 1], D->Directive_byteOffset + (int)size0)));
  size_t len0 = D->InstrLabel_length; bool isref = D->cls == CLS_InstrLabel; size_t i0 = _i;
  int r = pass_body(D);
  if (r < 0) return;
  _i = i0 + 1;
  __CPROVER_assert(!isref || D->InstrLabel_length >= len0, "C05 termination: encoding lengths never shrink");
  __CPROVER_assert(!isref || D->InstrLabel_length <= 8, "C05 termination: encoding lengths never exceed 8");
  if (isref && D->InstrLabel_length > len0) grown = true;
  __CPROVER_assert(INV_PROGRESS(), "C05 termination: while no reference grows the layout reproduces itself (invariant re-established)");
#ifdef CANARY
  __CPROVER_assert(0, "canary: harness end reachable");
#endif
}
void h_progress_exit(void) {
  pass_state();
  grown = nondet_bool();
  __CPROVER_assume(INV_PROGRESS() && _i == prog_n);
  __CPROVER_assert(!changed || grown, "C05 termination: a pass that moves a label has strictly grown some reference (so at most 7n+2 passes)");
}

/* ---------- emission: one iteration of emitProgramBin's loop for an arbitrary directive ---------- */
static unsigned spec_opcode(Token t) {
  return t == T_LDAM ? I_LDAM : t == T_LDBM ? I_LDBM : t == T_STAM ? I_STAM : t == T_LDAC ? I_LDAC : t == T_LDBC ? I_LDBC : t == T_LDAP ? I_LDAP :
         t == T_LDAI ? I_LDAI : t == T_LDBI ? I_LDBI : t == T_STAI ? I_STAI : t == T_BR ? I_BR : t == T_BRZ ? I_BRZ : t == T_BRN ? I_BRN : I_OPR;
}
static unsigned spec_opr(Token t) { return t == T_BRB ? O_BRB : t == T_ADD ? O_ADD : t == T_SUB ? O_SUB : O_SVC; }
void h_emit_step(void) {
  prog_n = 2; program = malloc(2 * sizeof(Directive)); __CPROVER_assume(program != NULL);
  Directive *D = &program[0], *N = &program[1];
  __CPROVER_assume(WF(D, MAXN, true) && WF(N, MAXN, false));
  bool last = nondet_bool();                 /* D is the final directive (then it may be the Padding the constructor appended) */
  __CPROVER_assume(last || D->cls != CLS_Padding);
  /* class invariant of immediates: getSize() is an encoding length in which the value fits (C04 getSize contract) */
  byteOffset = nondet_int(); __CPROVER_assume(byteOffset >= 0 && byteOffset <= MAXOFF);
  out_len = (size_t)byteOffset; verif_thrown = false; dbg_pushes = 0; list_lines = 0; programSize = 0;
  /* emission invariant at loop head: bytes written so far == running offset, and the layout put D where emission will */
  __CPROVER_assume(D->cls == CLS_Padding || ALIGN_IF_DATA(D, byteOffset) == D->Directive_byteOffset);
  /* layout post-condition instantiated at (D, next): offsets chained */
  size_t size0 = V_getSize(D);
  __CPROVER_assume(last || N->Directive_byteOffset == ALIGN_IF_DATA(N, D->Directive_byteOffset + (int)size0));
  int start = (D->cls == CLS_Data) ? ALIGN4(byteOffset) : byteOffset;
  win_start = (size_t)start;
  size_t pad_from = out_len;
  emit_body(D);
  list_body(D);
  __CPROVER_assert(!verif_thrown, "C05 emit: no error raised for a well-formed directive");
  size_t written = out_len - (size_t)start;
  __CPROVER_assert(out_len >= (size_t)start && written == size0, "C05/C17 emit: exactly getSize() bytes are written for the directive (after alignment zeros)");
  __CPROVER_assert(D->cls == CLS_Padding || start == D->Directive_byteOffset, "C05/C17 emit: the directive's encoding starts at its layout offset");
  __CPROVER_assert(D->cls == CLS_Padding || (size_t)byteOffset == out_len, "C05 emit: running offset == bytes written (loop invariant)");
  __CPROVER_assert(last || ALIGN_IF_DATA(N, byteOffset) == N->Directive_byteOffset, "C05 emit: invariant re-established for the next directive");
  if (D->cls == CLS_Data) {
    __CPROVER_assert((start & 3) == 0 && win[0] == (uint8_t)D->Data_value && win[1] == (uint8_t)(D->Data_value >> 8) && win[2] == (uint8_t)(D->Data_value >> 16) && win[3] == (uint8_t)((uint32_t)D->Data_value >> 24),
                     "C05 emit: DATA word aligned and stored little endian");
  } else if (D->cls == CLS_InstrImm || D->cls == CLS_InstrLabel || D->cls == CLS_InstrOp) {
    unsigned opc = 0; uint32_t operand = 0;
    bool ok = size0 >= 1 && size0 <= 8 && isa_decode_prefix(win, size0, &opc, &operand);
    __CPROVER_assert(ok, "C05 emit: bytes are PFIX/NFIX* followed by one instruction byte");
    __CPROVER_assert(!ok || opc == spec_opcode(D->Directive_token), "C05 emit: instruction byte carries the mnemonic's opcode");
    __CPROVER_assert(!ok || D->cls == CLS_InstrOp || operand == (uint32_t)V_getValue(D), "C05 emit: the encoded operand is the directive's (resolved) value");
    __CPROVER_assert(!ok || D->cls != CLS_InstrOp || operand == spec_opr(D->InstrOp_opcode), "C05 emit: OPR carries its sub-opcode");
    /* C17: what the listing line shows == what was encoded */
    __CPROVER_assert(list_lines == 1 && (int)list_off == start && list_size == written, "C17: listed offset and size are where the encoding starts and how many bytes it occupies");
    __CPROVER_assert(!ok || D->cls == CLS_InstrOp || (uint32_t)list_operand == operand, "C17: listed operand is the value actually encoded");
  } else if (ISLABEL(D)) {
    __CPROVER_assert(written == 0, "C05 emit: labels occupy no bytes");
    __CPROVER_assert((D->cls == CLS_Label) == (dbg_pushes == 0) && (dbg_pushes == 0 || (dbg_pushes == 1 && dbg_name == D->Label_label && dbg_offset == start)),
                     "C15: one symbol per FUNC/PROC with the offset of the next emitted byte");
  } else {
    __CPROVER_assert(written == D->Padding_numBytes, "C05 emit: trailing padding");
  }
  if (D->cls == CLS_Data) __CPROVER_assert(list_lines == 1 && (int)list_off == start && list_size == 4, "C17: DATA listed at its aligned offset with 4 bytes");
#ifdef CANARY
  __CPROVER_assert(0, "canary: harness end reachable");
#endif
#ifdef COVER
  __CPROVER_cover(D->cls == CLS_Data && (byteOffset - 0) % 4 == 0 && start != 0); __CPROVER_cover(D->cls == CLS_InstrLabel && size0 == 8 && V_getValue(D) < 0);
  __CPROVER_cover(D->cls == CLS_InstrImm && size0 == 3); __CPROVER_cover(D->cls == CLS_Padding && D->Padding_numBytes == 3); __CPROVER_cover(D->cls == CLS_Proc);
  __CPROVER_cover(D->cls == CLS_InstrLabel && size0 == 2 && V_getValue(D) >= 0 && V_getValue(D) < 16);
#endif
}

/* ---------- constructor size/padding arithmetic + emitBin header word ---------- */
void h_header(void) {
  unsigned last_off = nondet_unsigned(); size_t last_size = nondet_size();
  __CPROVER_assume(last_off <= MAXOFF && last_size <= 8);
  size_t programSizeBytes = 0;
  CTOR_SIZE_ARITH
  uint32_t programSizeWords;
  HEADER_WORD
  __CPROVER_assert(paddingBytes <= 3, "C05: trailing padding is at most 3 bytes");
  __CPROVER_assert(programSizeBytes == (size_t)last_off + last_size + paddingBytes && (programSizeBytes & 3) == 0, "C05: image size is the layout size padded to a word boundary");
  __CPROVER_assert((size_t)programSizeWords * 4 == programSizeBytes, "C05: the length word in the file header equals the size of the image");
#ifdef CANARY
  __CPROVER_assert(0, "canary: harness end reachable");
#endif
}

/* ---------- BOUNDED stand-in for termination: progress lemma on all programs of <= NB directives ----------
   State: the exit state of an arbitrary earlier pass (offsets chained from 0, labels at their offsets, lengths 1..8).
   One more (non-first) pass either changes no label (the outer loop then ends) or strictly grows some reference's
   length; lengths never shrink and are at most 8, so at most 7n passes can continue: the layout iteration ends after at
   most 7n+2 passes.  Bounded in the number of directives only (NB), not in the number of passes. */
#ifndef NB
#define NB 4
#endif
static int cex_cls[NB], cex_tok[NB], cex_imm[NB], cex_tgt[NB], cex_rel[NB], cex_len[NB];
void h_bounded(void) {
  static Directive P[NB];
  size_t cex_n = nondet_size(); __CPROVER_assume(cex_n >= 1 && cex_n <= NB);
  program = P; prog_n = cex_n; verif_thrown = false;
  int off = 0; int M0 = 0;
  for (size_t i = 0; i < NB; i++) {
    if (i >= cex_n) continue;
    Directive d; d.cls = nondet_int(); d.Directive_token = (Token)nondet_int(); d.InstrImm_immValue = nondet_int(); d.Data_value = 0;
    d.InstrLabel_label = nondet_int(); d.InstrLabel_relative = nondet_bool(); d.InstrOp_opcode = T_ADD; d.Padding_numBytes = 0; d.Label_label = (int)i; d.Directive_location = 0;
    d.Directive_assembled = true; d.InstrLabel_labelValue = nondet_int(); d.InstrLabel_length = nondet_size();
    d.Func_identifier = 0; d.Proc_identifier = 0; d.Directive_byteOffset = 0; d.Label_labelValue = 0;
    P[i] = d;
    /* exit state of the previous pass: chained offsets, labels at their offsets */
    off = ALIGN_IF_DATA(&P[i], off);
    P[i].Directive_byteOffset = off; P[i].Label_labelValue = ISLABEL(&P[i]) ? off : 0;
    __CPROVER_assume(WF(&P[i], cex_n, false));
    off += (int)V_getSize(&P[i]);
    if (P[i].cls == CLS_InstrLabel) M0 += 8 - (int)P[i].InstrLabel_length;
    cex_cls[i] = d.cls; cex_tok[i] = d.Directive_token; cex_imm[i] = d.InstrImm_immValue; cex_tgt[i] = d.InstrLabel_label; cex_rel[i] = d.InstrLabel_relative; cex_len[i] = (int)d.InstrLabel_length;
  }
  for (size_t i = 0; i < NB; i++)   /* accepted programs: every referenced label is declared */
    __CPROVER_assume(i >= cex_n || P[i].cls != CLS_InstrLabel || (P[i].InstrLabel_label >= 0 && (size_t)P[i].InstrLabel_label < cex_n && ISLABEL(&P[P[i].InstrLabel_label])));
  /* one more pass of CodeGen::resolveLabels (outer structure text-matched by the extractor) */
  firstPass = false; changed = false; unaligned = NULL; byteOffset = 0;
  for (size_t i = 0; i < NB; i++) { if (i >= cex_n) continue; if (pass_body(&P[i]) < 0) { __CPROVER_assert(0, "C05 bounded: no error inside a pass for declared labels"); return; } }
  int M1 = 0;
  for (size_t i = 0; i < NB; i++) if (i < cex_n && P[i].cls == CLS_InstrLabel) M1 += 8 - (int)P[i].InstrLabel_length;
  __CPROVER_assert(M1 >= 0 && M1 <= M0, "C05 bounded: encoding lengths never shrink and never exceed 8");
  __CPROVER_assert(!changed || M1 < M0, "C05 bounded: a pass that moves a label strictly grows some reference (termination measure, bounded stand-in)");
#ifdef CANARY
  __CPROVER_assert(0, "canary: harness end reachable");
#endif
}
#endif
"""


def ctor_arith(manifest):
    """constructor size/padding arithmetic, getProgramSize, emitBin header word -> statements for h_header"""
    src = hv.Source("hexasm.hpp", manifest)
    gps = src.span(r"size_t getProgramSize\(\) \{\s*(return program\.back\(\)->getByteOffset\(\) \+ program\.back\(\)->getSize\(\);)\s*\}", "CodeGen::getProgramSize", 1)
    ctor, _, _ = src.block_after(r"CodeGen\(std::vector<std::unique_ptr<Directive>> &program\) :\s*program\(program\), programSizeBytes\(0\) \{", "CodeGen::CodeGen")
    body = " ".join(hv.strip_comments(ctor).split())
    want = ("{ createLabelMap(); resolveLabels(); programSizeBytes = getProgramSize(); auto paddingBytes = ((programSizeBytes + 3U) & ~3U) - programSizeBytes; "
            "program.push_back(std::make_unique<Padding>(paddingBytes)); programSizeBytes += paddingBytes; }")
    if body != want:
        raise hv.ExtractionError("CodeGen constructor differs from the text the header lemma was written for:\n found %s\n expected %s" % (body, want))
    hw = src.span(r"\n\s*(uint32_t programSizeWords = programSizeBytes >> 2;)\s*\n\s*outputFile\.write\(reinterpret_cast<const char\*>\(&programSizeWords\), sizeof\(uint32_t\)\);", "emitBin header word", 1)
    arith = ("programSizeBytes = (size_t)last_off + last_size; /* getProgramSize(): %s */ "
             "size_t paddingBytes = ((programSizeBytes + 3U) & ~3U) - programSizeBytes; programSizeBytes += paddingBytes;") % gps.replace("*/", "")
    return arith, hw.replace("uint32_t programSizeWords", "programSizeWords")


def build_unit(chk, nb=4):
    m = chk.manifest
    en, _ = asmx.enums(m)
    fam, info = dirx.family(m)
    arith, hw = ctor_arith(m)
    body = (en + asmx.token_fns(m) + asmx.numNibbles(m) + dirx.instrLen(m) + fam + STATE + dirx.resolve_pass(m) + EMIT_STATE + dirx.emit_body(m) + dirx.list_body(m)
            + HARNESS.replace("CTOR_SIZE_ARITH", arith).replace("HEADER_WORD", hw))
    protos, defs = hv.pull_helpers(PRELUDE + body, "hexasm.hpp", m)
    return chk.write("c05_unit.c", PRELUDE + protos + body + defs)


def native(chk):
    exe = os.path.join(chk.out, "asm_native")
    hv.build_native(os.path.join(hv.VERIF, "native", "asm_native.cpp"), exe)
    return exe


def native_stage(chk, pid):
    exe = native(chk)
    tier = chk.tier
    n = 3000 if tier == "quick" else 200000
    rc, o, e, secs = hv.run([exe, "sweep", str(chk.seed), str(n)] + (["big"] if tier == "thorough" else []), timeout=3000)
    try:
        sw = json.loads(o)
    except Exception:
        raise hv.Infra("native assembler sweep failed: " + (o + e)[-800:])
    first5, first17 = sw.pop("first_c05", ""), sw.pop("first_c17", "")
    sw["stage"] = "real hexasm Lexer/Parser/CodeGen on random programs around the encoding-length boundaries; image decoded with the ISA rule; listing compared with the bytes"
    sw["secs"] = round(secs, 1)
    chk.native.append(sw)
    mine = (sw["bad_layout_or_reference"], first5, sw.get("why_c05")) if pid == "C05" else (sw["bad_layout_or_reference"] + sw["bad_listing_only"], first17 or first5, sw.get("why_c17") or sw.get("why_c05"))
    if mine[0]:
        f = os.path.join(hv.OUTROOT, "replay", "%s-native-sweep.S" % pid)
        open(f, "w").write(mine[1])
        chk.add_violation("native-sweep", f, mine[2], True)
    # directed distances: every operand m*16^k + {-1,0,1} (both signs for relative references, word addresses for absolute ones)
    limit = 790000
    rc, o, e, secs = hv.run([exe, "distances", str(limit)], timeout=3000)
    try:
        ds = json.loads(o)
    except Exception:
        raise hv.Infra("native directed-distance stage failed: " + (o + e)[-800:])
    d5, d17 = ds.pop("first_c05", ""), ds.pop("first_c17", "")
    ds["stage"] = "real hexasm on programs whose reference operand is exactly +-(m*16^k + {-2..2}) (relative) or m*16^k + {-2..2} (absolute), up to %d, and on reference chains that need 5..102 layout passes" % limit
    ds["secs"] = round(secs, 1)
    chk.native.append(ds)
    mine = (ds["bad_layout_or_reference"], d5, ds.get("why_c05")) if pid == "C05" else (ds["bad_layout_or_reference"] + ds["bad_listing_only"], d17 or d5, ds.get("why_c17") or ds.get("why_c05"))
    if mine[0] and not chk.violations:
        f = os.path.join(hv.OUTROOT, "replay", "%s-native-distance.S" % pid)
        open(f, "w").write(mine[1])
        chk.add_violation("native-distances", f, mine[2], True)
    cli_stage(chk, exe, pid)
    xcmp_cli_stage(chk, exe, pid)
    return exe


CLI_SOURCE = """BR start
DATA 16383
table
DATA -1
DATA 2147483647
DATA -2147483648
DATA -1000000000
DATA 3000000000
FUNC f
LDAC -2147483648
LDBC 4294967295
LDAM table
STAM table
%s
BR f
start
PROC main
LDAP table
LDAC 268435456
BRZ far
BRN f
LDAI 255
LDBI 256
STAI 4095
OPR ADD
%s
far
LDBM 1
LDAC 0
STAI 2
LDAC 0
OPR SVC
"""


def cli_stage(chk, exe, pid):
    """the hexasm EXECUTABLE (hexasm.cpp: openFile, argument handling) against the in-process pipeline the other stages
    validate: byte-identical image (`-o`), identical `--instrs` listing, for a source with boundary immediates, forward and
    backward references of 1..4 bytes, DATA words and FUNC/PROC symbols"""
    hexasm = os.path.join(chk.out, "hexasm_cli")
    hv.build_native(os.path.join(hv.REPO, "hexasm.cpp"), hexasm, extra=[os.path.join(hv.REPO, "hex.cpp")], opt="-O1", hooks=False)
    d = os.path.join(chk.out, "scratch", "cli")
    os.makedirs(d, exist_ok=True)
    src = CLI_SOURCE % ("LDAC 7\n" * 300, "LDAC 2147483647\n" * 600)
    open(os.path.join(d, "p.S"), "w").write(src)
    rc, o, e, _ = hv.run([exe, "emit", "p.S", "ref.bin", "ref.lst"], cwd=d, timeout=120)
    if rc != 0:
        raise hv.Infra("in-process assembly of the CLI test source failed: " + (o + e)[-300:])
    why = ""
    rc1, o1, e1, _ = hv.run([hexasm, "p.S", "-o", "cli.bin"], cwd=d, timeout=120)
    rc2, o2, e2, _ = hv.run([hexasm, "p.S", "--instrs"], cwd=d, timeout=120)
    ref_bin = open(os.path.join(d, "ref.bin"), "rb").read()
    ref_lst = open(os.path.join(d, "ref.lst")).read()
    try:
        cli_bin = open(os.path.join(d, "cli.bin"), "rb").read()
    except OSError:
        cli_bin = None
    if rc1 != 0 or cli_bin is None:
        why = "hexasm p.S -o cli.bin: status %s, %s" % (rc1, "no output file" if cli_bin is None else (e1 or o1)[-200:])
    elif cli_bin != ref_bin:
        k = next((i for i in range(min(len(cli_bin), len(ref_bin))) if cli_bin[i] != ref_bin[i]), min(len(cli_bin), len(ref_bin)))
        why = "image written by the hexasm executable differs from the in-process image at byte %d (lengths %d / %d)" % (k, len(cli_bin), len(ref_bin))
    elif rc2 != 0 or o2 != ref_lst:
        why = "`hexasm --instrs` output differs from the in-process listing"
    else:
        # the same image written to a destination that cannot seek (a pipe)
        import subprocess
        try:
            r = subprocess.run("%s p.S -o /dev/stdout | cat" % hexasm, shell=True, cwd=d, capture_output=True, timeout=120)
            if r.stdout != ref_bin:
                k = next((i for i in range(min(len(r.stdout), len(ref_bin))) if r.stdout[i] != ref_bin[i]), min(len(r.stdout), len(ref_bin)))
                why = "image written by the hexasm executable into a pipe (-o /dev/stdout | cat) differs from the in-process image at byte %d (lengths %d / %d)" % (k, len(r.stdout), len(ref_bin))
        except subprocess.TimeoutExpired:
            why = "hexasm -o /dev/stdout | cat does not finish"
    chk.native.append({"stage": "hexasm executable vs the in-process pipeline on one source file: image (-o) byte-identical, --instrs listing identical", "ok": not why, "why": why})
    if why and not chk.violations:
        f = os.path.join(hv.OUTROOT, "replay", "%s-native-cli.S" % pid)
        open(f, "w").write(src)
        chk.add_violation("native-cli", f, why, True)


REL_TOKENS = {"LDAP", "LDAI", "LDBI", "STAI", "BR", "BRZ", "BRN"}
ABS_TOKENS = {"LDAM", "LDBM", "STAM", "LDAC", "LDBC"}


def construction_sites(chk, pid):
    """every place in xcmp.hpp / hexasm.hpp that creates a label-reference directive passes the addressing form that the
    property assigns to the mnemonic (relative for BR/BRZ/BRN/LDAP and the indexed forms, absolute for LDAM/LDBM/STAM/LDAC/
    LDBC).  The layout lemmas take the form from the directive's flag; this ties the flag to the mnemonic at its source."""
    sites, bad = [], []
    for fn in ("xcmp.hpp", "hexasm.hpp"):
        src = hv.strip_comments(open(os.path.join(hv.REPO, fn)).read())
        for m in re.finditer(r"make_unique<(?:hexasm::)?InstrLabel>\(([^;]*?)\)\s*\)?\s*;", src):
            args = [a.strip() for a in m.group(1).split(",")]
            flag = args[-1]
            toks = re.findall(r"Token::(\w+)", m.group(1))
            line = src.count("\n", 0, m.start()) + 1
            if toks:
                tok = toks[0]
                want = "true" if tok in REL_TOKENS else "false" if tok in ABS_TOKENS else None
                sites.append({"file": fn, "line": line, "token": tok, "relative": flag})
                if want is None or flag not in ("true", "false") or flag != want:
                    bad.append("%s:%d creates %s with relative=%s" % (fn, line, tok, flag))
            else:
                # the assembler's parser: the mnemonic is the case label the statement sits under
                pre = src[:m.start()]
                k = pre.rfind("auto opcode = lexer.getLastToken();")
                labels = re.findall(r"case Token::(\w+):", pre[pre.rfind(";", 0, k) + 1:k]) if k > 0 else []   # the run of case labels directly in front
                sites.append({"file": fn, "line": line, "tokens": labels, "relative": flag})
                for tok in labels:
                    want = "true" if tok in REL_TOKENS else "false" if tok in ABS_TOKENS else None
                    if want is None or flag != want:
                        bad.append("%s:%d creates %s with relative=%s" % (fn, line, tok, flag))
    chk.extra["label_reference_construction_sites"] = {"sites": len(sites), "mismatches": bad}
    if len(sites) < 10:
        raise hv.ExtractionError("construction sites of InstrLabel: found only %d (expected the 9 gen* functions of xcmp and the 2 parser sites)" % len(sites))
    return bad


def xcmp_cli_stage(chk, exe, pid):
    """a reader's check of `xcmp -S` listings against the binaries xcmp writes, for the X programs shipped in tests/x (the
    compiler builds its directive objects directly, not through the assembler's parser), and of `hexasm --instrs` for
    tests/asm: every listed item's bytes are where, as many and what the listing says; label operands reach the listed label"""
    import glob
    xcmp = os.path.join(chk.out, "xcmp_cli")
    hexasm = os.path.join(chk.out, "hexasm_cli")
    hv.build_native(os.path.join(hv.REPO, "xcmp.cpp"), xcmp, extra=[os.path.join(hv.REPO, "hex.cpp")], opt="-O0", hooks=False)
    if not os.path.exists(hexasm):
        hv.build_native(os.path.join(hv.REPO, "hexasm.cpp"), hexasm, extra=[os.path.join(hv.REPO, "hex.cpp")], opt="-O1", hooks=False)
    d = os.path.join(chk.out, "scratch", "xcli")
    os.makedirs(d, exist_ok=True)
    n, items, why, bad = 0, 0, "", None
    # a few X sources of our own: every way xcmp creates a label reference (globals, constant pool, strings loaded into
    # either register, arrays, calls in both directions, conditionals)
    own = {
        "refs1.x": "val put = 1;\nvar g;\narray a[3];\nfunc f(val x) is return x + 70000\nproc p(val s) is put(s, 0)\n"
                   "proc main() is { g := f(3); a[1] := g; if g < 3 then p(\"yes\") else p(\"no\"); while g < 70010 do g := g + 1; 0(a[1] - g) }\n",
        "refs2.x": "var v;\nproc main() is { v := 0; 0(v + \"abc\") }\n",
        "refs3.x": "var v;\nproc main() is { v := 0; 0(\"abc\" + v) }\n",
        "refs4.x": "var v;\nproc main() is { v := 100000; 0((v - 99999) + (\"x\" - \"x\")) }\n",
        "refs5.x": "var v;\nproc main() is { v := 2000000001; 0((v + (-2000000000)) + ((v - 2147483647) + 147483646)) }\n",
    }
    for name, text in own.items():
        open(os.path.join(d, name), "w").write(text)
    for f in [os.path.join(d, k) for k in sorted(own)] + sorted(glob.glob(os.path.join(hv.REPO, "tests", "x", "*.x"))) + sorted(glob.glob(os.path.join(hv.REPO, "tests", "asm", "*.S"))):
        tool = xcmp if f.endswith(".x") else hexasm
        try:
            os.remove(os.path.join(d, "a.out"))
        except OSError:
            pass
        rc, o, e, _ = hv.run([tool, f], cwd=d, timeout=120)
        if rc != 0 or not os.path.exists(os.path.join(d, "a.out")):
            continue   # sources the tool rejects (or crashes on) are not this property's business
        rc, lst, e, _ = hv.run([tool, f, "-S" if tool == xcmp else "--instrs"], cwd=d, timeout=120)
        if rc != 0:
            continue
        open(os.path.join(d, "p.lst"), "w").write(lst)
        rc, o, e, _ = hv.run([exe, "checklisting", "p.lst", "a.out"], cwd=d, timeout=120)
        try:
            r = json.loads(o)
        except Exception:
            raise hv.Infra("checklisting failed on %s: %s" % (f, (o + e)[-300:]))
        n += 1
        items += r.get("items_checked", 0)
        if not r.get("ok") and not why:
            why, bad = "%s: %s" % (os.path.basename(f), r.get("why")), f
    chk.native.append({"stage": "listings of the xcmp / hexasm executables (-S / --instrs) checked against the binaries they write, from the two files alone (shipped X and assembly programs)",
                       "programs": n, "listed_items_checked": items, "ok": not why, "why": why})
    if n < 10:
        raise hv.Infra("only %d shipped programs could be compiled for the listing check" % n)
    try:
        sites_bad = construction_sites(chk, pid)
    except hv.ExtractionError as ex:
        sites_bad = []
        chk.undecided.append("construction sites: %s" % ex)
    if sites_bad:
        p = os.path.join(hv.OUTROOT, "replay", "%s-construction-sites.txt" % pid)
        open(p, "w").write("\n".join(sites_bad) + "\n" + (why or "") + "\n")
        if pid == "C05":
            chk.add_violation("construction-sites", p, "label reference created with the wrong addressing form: %s%s" % ("; ".join(sites_bad[:3]), ("; real xcmp: " + why) if why else ""), bool(why))
    if why and not chk.violations:
        p = os.path.join(hv.OUTROOT, "replay", "%s-native-listing.txt" % pid)
        open(p, "w").write("%s\n%s\n" % (bad, why))
        chk.add_violation("native-listing", p, why, True)


def native_only(chk):
    native_stage(chk, chk.pid)


def cex_to_asm(cex, token_names):
    """bounded-harness counterexample -> assembly text"""
    def arr(name):
        res = {}
        for k, v in cex.items():
            mm = re.match(r"%s\[(\d+)l?\]" % name, k)
            if mm:
                try:
                    res[int(mm.group(1))] = v
                except ValueError:
                    pass
        return res
    n = hv.parse_c_int(cex["cex_n"])
    cls, tok, imm, tgt, rel = arr("cex_cls"), arr("cex_tok"), arr("cex_imm"), arr("cex_tgt"), arr("cex_rel")
    lines = []
    for i in range(n):
        c = hv.parse_c_int(cls[i])
        tname = re.search(r"T_(\w+)", str(tok[i]))
        t = tname.group(1) if tname else token_names[hv.parse_c_int(tok[i])]
        if c == 1:
            lines.append("DATA 0")
        elif c in (2, 3, 4):
            lines.append({2: "", 3: "FUNC ", 4: "PROC "}[c] + "L%d" % i)
        elif c == 5:
            lines.append("%s %d" % (t, hv.parse_c_int(imm[i])))
        elif c == 6:
            lines.append("%s L%d" % (t, hv.parse_c_int(tgt[i])))
        elif c == 7:
            lines.append("OPR ADD")
    return "\n".join(lines) + "\n"


def jobs_for(unit, tier, prefix="C05"):
    J = hv.Job
    nb = 4 if tier == "quick" else 6
    jobs = [
        J("numNibbles.contract", unit, "h_numNibbles", enforce="numNibbles", loop_contracts=asmx.NUMNIBBLES_LOOP_CONTRACT, unwind=None if asmx.NUMNIBBLES_LOOP_CONTRACT else 9,
          functions=["numNibbles"], role="aux", note="" if asmx.NUMNIBBLES_LOOP_CONTRACT else "counting loop has no recognised shape: unwound 9 times with unwinding assertions (complete: the loop is bounded by the operand width)"),
        J("instrLen.contract", unit, "h_instrLen", enforce="instrLen", replace=["numNibbles"], loop_contracts=dirx.INSTRLEN_LOOP_CONTRACT, unwind=None if dirx.INSTRLEN_LOOP_CONTRACT else 9,
          functions=["instrLen"], role="aux", note="" if dirx.INSTRLEN_LOOP_CONTRACT else "growth loop has no recognised shape: unwound 9 times with unwinding assertions (lengths are at most 8)"),
        J("pass.ref.base", unit, "h_pass_ref_base", functions=["resolveLabels pass"], role="aux"),
        J("pass.ref.step", unit, "h_pass_ref_step", replace=["instrLen", "numNibbles"], object_bits=12, timeout=1500, stop_on_fail=True, functions=["resolveLabels pass body", "Directive family"], role="aux",
          note="inductive step over a directive list of symbolic length (<= 100000), ghost reference k / target t; callees replaced by their contracts"),
        J("pass.unal.step", unit, "h_pass_unal_step", replace=["instrLen", "numNibbles"], object_bits=12, timeout=1500, stop_on_fail=True, functions=["resolveLabels pass body"],
          note="completeness of the rejection flag (ghost witness)"),
        J("unal.exit", unit, "h_unal_exit", functions=["resolveLabels (after the loop)"], note="rejected only if an absolute reference's label is unaligned in the final layout"),
        J("fixedpoint.exit", unit, "h_fixedpoint_exit", functions=["resolveLabels (exit of a changeless pass)"], note="property-level: follows from the pass invariant"),
        J("pass.chain.base", unit, "h_pass_chain_base", unwind=9, functions=["resolveLabels pass"], role="aux"),
        J("pass.chain.step", unit, "h_pass_chain_step", replace=["instrLen"], unwind=9, object_bits=12, timeout=1500, stop_on_fail=True, functions=["resolveLabels pass body"],
          note="property-level: layout in source order without overlap, DATA aligned"),
        J("progress.base", unit, "h_progress_base", functions=["resolveLabels pass"], role="aux"),
        J("progress.step", unit, "h_progress_step", replace=["instrLen"], unwind=9, object_bits=12, timeout=1500, stop_on_fail=True, functions=["resolveLabels pass body"], role="aux",
          note="termination ingredient, unbounded in program length: no reference grows => layout reproduces itself"),
        J("progress.exit", unit, "h_progress_exit", functions=["resolveLabels (end of a pass)"], role="aux", note="changed => some length strictly grew"),
        J("progress.step.canary", unit, "h_progress_step", replace=["instrLen"], unwind=9, object_bits=12, defines=["CANARY"], kind="canary", checks=[], timeout=1500),
        J("emit.step", unit, "h_emit_step", unwind=9, timeout=900, stop_on_fail=True, functions=["emitProgramBin loop body", "emitProgramText loop body", "Directive::getSize/getValue"],
          note="per directive, arbitrary running offset; loops bounded by 8 bytes fully unwound"),
        J("header.lemma", unit, "h_header", functions=["CodeGen::CodeGen size/padding arithmetic", "getProgramSize", "emitBin header word"]),
        J("termination.bounded", unit, "h_bounded", unwind=max(nb + 1, 9), defines=["NB=%d" % nb], timeout=2400 if tier == "quick" else 7200, kind="bounded", bounded=True,
          functions=["resolveLabels (one pass from the exit state of any earlier pass)"],
          note="BOUNDED in program length: all programs of at most %d directives; progress measure sum(8-length) strictly decreases in every pass that moves a label" % nb),
        J("termination.bounded.canary", unit, "h_bounded", unwind=max(nb + 1, 9), defines=["NB=%d" % nb, "CANARY"], kind="canary", checks=[], timeout=2400),
        J("pass.ref.step.canary", unit, "h_pass_ref_step", replace=["instrLen", "numNibbles"], object_bits=12, defines=["CANARY"], kind="canary", checks=[], timeout=1500),
        J("pass.chain.step.canary", unit, "h_pass_chain_step", replace=["instrLen"], unwind=9, object_bits=12, defines=["CANARY"], kind="canary", checks=[], timeout=1500),
        J("fixedpoint.exit.canary", unit, "h_fixedpoint_exit", defines=["CANARY"], kind="canary", checks=[]),
        J("emit.step.canary", unit, "h_emit_step", unwind=9, defines=["CANARY"], kind="canary", checks=[], timeout=900),
        J("header.canary", unit, "h_header", defines=["CANARY"], kind="canary", checks=[]),
        J("pass.ref.step.cover", unit, "h_pass_ref_step", replace=["instrLen", "numNibbles"], object_bits=12, defines=["COVER", "COVER_BY_ASSERT"], kind="cover", cover_by_assert=True, checks=[], timeout=1500),
        J("emit.step.cover", unit, "h_emit_step", unwind=9, defines=["COVER"], kind="cover", cover=True, checks=[], timeout=900),
    ]
    return jobs


def main(chk, replay_file, pid=PID):
    tier = chk.tier
    unit = build_unit(chk)
    chk.functions = ["hexasm::numNibbles", "hexasm::instrLen", "hexasm::Directive family (getSize/getValue/setLabelValue/setLength/setByteOffset/getByteOffset/getToken)",
                     "hexasm::CodeGen::resolveLabels (inner loop body; outer structure text-matched)", "hexasm::CodeGen::emitProgramBin (loop body)",
                     "hexasm::CodeGen::emitProgramText (loop body)", "hexasm::CodeGen::CodeGen (size/padding arithmetic)", "hexasm::CodeGen::getProgramSize", "hexasm::CodeGen::emitBin (header word)"]
    chk.trusted = ["CBMC 6.11.0 + MiniSat", "extractor rules in lib/dirx.py, lib/asmx.py; harness prelude in checks/c05.py", "spec/isa.h isa_decode_prefix",
                   "std::map<std::string,Label*> lookup = the directive declaring that name (names are indices); std::vector iteration = indexed loop",
                   "ostream::put/write append the given bytes (OUT_PUT/OUT_WRITE stubs)"]
    chk.assumptions = [
        "directives are well formed as Parser/xcmp construct them (constructors not verified): WF() in checks/c05.py; WF is assumed at the visited element and the dereferenced target (instantiation of the quantified precondition) and proved preserved for ghost elements",
        "accepted programs: every referenced label is declared (otherwise UnknownLabelError, proved to be the only error inside a pass); programs have at least one directive and fewer than 100000 (images below 2^28 bytes)",
        "composition on paper: pass invariant (base+step) => fixed-point exit lemma => emission precondition; emit.step + chain => whole-image layout; C04 emit contract is re-proved here on the loop body",
        "outer loop of resolveLabels, the constructor and emitBin are compared textually with the structure the lemmas were written for (any change aborts with exit 2)",
        "termination: proved ingredients (unbounded in program length): lengths never shrink and are <= 8; a pass in which no reference grows reproduces the layout and moves no label (progress.base/step/exit). That the sum of (8 - length) over a symbolic-length list is a decreasing measure (hence <= 7n+2 passes) is paper glue. The additional termination.bounded job re-checks the measure directly on all programs of <= 4/6 directives (BOUNDED, not counted as proved)",
        "C++ exceptions abstracted to a ghost flag; unique_ptr ownership and object lifetime dropped",
    ]
    exe = None
    if replay_file:
        exe = native(chk)
        rc, o, e, _ = hv.run([exe, "replay", replay_file if replay_file.endswith(".S") else json.load(open(replay_file))["asm_file"]], timeout=120)
        print(o.strip())
        return 0 if rc == 0 else 1
    jobs = jobs_for(unit, tier)
    if pid == "C17":
        jobs = [j for j in jobs if j.name.startswith(("emit.", "header.", "pass.chain", "fixedpoint"))]
    chk.jobs = jobs
    hv.run_jobs(jobs, chk.out)
    exe = native_stage(chk, pid)

    failed_prop, failed_aux, failed_bounded = [], [], []
    for j in jobs:
        r = j.result
        if r["status"] != "failed" or j.kind not in ("proof", "bounded"):
            continue
        for f in r["failed"]:
            (failed_bounded if j.kind == "bounded" else failed_prop if j.role == "property" else failed_aux).append((j, f))
    # bounded harness counterexamples are concrete programs: replay them on the real assembler
    _, names = asmx.enums([])
    for j, f in failed_bounded:
        name = j.name + ":" + f["name"]
        try:
            asm = cex_to_asm(f.get("cex", {}), names)
        except Exception as ex:  # noqa
            asm = None
        p = os.path.join(hv.OUTROOT, "replay", "%s-%s.S" % (pid, re.sub(r"[^\w.]", "_", f["name"])))
        if asm:
            open(p, "w").write(asm)
            rc, o, e, _ = hv.run([exe, "replay", p], timeout=60)
            try:
                rr = json.loads(o)
            except Exception:
                rr = {"ok": None}
            if rc == -9:
                chk.add_violation(name, p, "%s; real hexasm does not terminate on this program (60 s)" % f["desc"], True)
                continue
            if rr.get("ok") is False and (pid == "C17" or rr.get("class") == 1):
                chk.add_violation(name, p, "%s; real hexasm: %s" % (f["desc"], rr.get("why")), True)
                continue
        if "unwinding" in f["desc"] or "7n+2" in f["desc"]:
            open(p, "w").write(asm or "")
            chk.add_violation(name, p, f["desc"], False)
        else:
            chk.undecided.append("%s %s (bounded counterexample does not fail on the real assembler)" % (name, f["desc"]))
    for j, f in failed_prop:
        name = j.name + ":" + f["name"]
        if chk.violations:
            continue
        p = chk.replay_path(f["name"])
        json.dump({"property": pid, "obligation": name, "desc": f["desc"], "verifier_counterexample": f.get("cex"),
                   "note": "abstract loop-state counterexample; bounded program search and native sweep found no concrete failing program"}, open(p, "w"), indent=1)
        chk.add_violation(name, p, f["desc"], False)
    # a failed contract of the length functions comes with an operand value: assemble programs whose reference has exactly
    # that operand on the real assembler
    for j, f in failed_aux:
        if j.name not in ("numNibbles.contract", "instrLen.contract") or chk.violations:
            continue
        try:
            cx = f.get("cex", {})
            if j.name == "numNibbles.contract":
                v = hv.parse_c_int(cx["cex_value"])
                cand = sorted(set([v, -abs(v)]))
            else:
                dist = hv.parse_c_int(cx["cex_labelOffset"]) - hv.parse_c_int(cx["cex_byteOffset"])
                cand = sorted(set([dist - k for k in range(1, 9)]))   # operand = distance - length, whatever length was chosen
        except (KeyError, ValueError):
            continue
        for d in cand:
            if abs(d) > 790000:
                continue
            rc, o, e, _ = hv.run([exe, "distance", str(d)], timeout=300)
            try:
                rr = json.loads(o)
            except Exception:
                continue
            bad = rr.get("bad_layout_or_reference", 0) + (rr.get("bad_listing_only", 0) if pid == "C17" else 0)
            if bad:
                p = os.path.join(hv.OUTROOT, "replay", "%s-%s_%d.S" % (pid, j.name.split(".")[0], d))
                open(p, "w").write(rr.get("first_c05") or rr.get("first_c17") or "")
                chk.add_violation("%s:%s" % (j.name, f["name"]), p, "%s; real hexasm with a reference operand of %d: %s" % (f["desc"], d, rr.get("why_c05") or rr.get("why_c17")), True)
                break
    if failed_aux and not chk.violations:
        for j, f in failed_aux:
            if failed_prop:
                continue
            # auxiliary-only failure with clean bounded search and clean native sweep: proof maintenance
            chk.undecided.append("%s:%s %s" % (j.name, f["name"], f["desc"]))
    return chk.finish()

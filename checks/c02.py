"""C02 -- hexsim executes every instruction exactly as the Hex ISA defines.

Unit (text extracted from /repo/hexsim.hpp, hexsimio.hpp on every run):
  step()        = body of the while loop of Processor::run()
  syscall()     = Processor::syscall()
  io_output/io_input = HexSimIO::output/input (stream operations -> ghost event stubs)
  loop condition and return value of run()
Contract of step (harness h_step): for every architectural state, every defined instruction byte,
every memory content with in-range addresses: post-state, stored word + memory frame (ghost index),
I/O event, file-open discipline, running/exit value equal spec/isa.h isa_step (transcribed from
hexb.pdf).  Induction over steps to whole runs is paper glue.
"""
import json
import os

import hv
import asmx
import simx

PID = "C02"

PRELUDE = r"""
#include "cprelude.h"
#include "isa.h"
bool verif_thrown;
/* --- ghost I/O: stream operations record one event; get() returns the harness's input oracle --- */
enum { OPEN_out = 1, OPEN_in = 2 };
int g_io_calls, g_ev_kind, g_ev_file, g_opens, g_open_idx, g_open_mode, g_open_name; bool g_ev_to_file; uint8_t g_ev_byte; int g_oracle_in;
#define NAME_ID(s) ((sizeof(s) == 7 && (s)[0]=='s' && (s)[1]=='i' && (s)[2]=='m' && (s)[3]=='o' && (s)[4]=='u' && (s)[5]=='t') ? 1 : \
                    (sizeof(s) == 6 && (s)[0]=='s' && (s)[1]=='i' && (s)[2]=='m' && (s)[3]=='i' && (s)[4]=='n') ? 2 : 0)
#define EV_STDOUT(v) do { g_io_calls++; g_ev_kind = EV_WRITE; g_ev_to_file = false; g_ev_byte = (uint8_t)(v); } while (0)
#define EV_FILE_PUT(i, v) do { __CPROVER_assert((i) < 8, "file index below 8"); g_io_calls++; g_ev_kind = EV_WRITE; g_ev_to_file = true; g_ev_file = (int)(i); g_ev_byte = (uint8_t)(v); } while (0)
#define EV_OPEN(name, i, mode) do { __CPROVER_assert((i) < 8, "file index below 8"); g_opens++; g_open_idx = (int)(i); g_open_mode = (mode); g_open_name = NAME_ID(name); } while (0)
static inline int EV_STDIN_GET(void) { g_io_calls++; g_ev_kind = EV_READ; g_ev_to_file = false; return g_oracle_in; }
static inline int EV_FILE_GET(size_t i) { __CPROVER_assert(i < 8, "file index below 8"); g_io_calls++; g_ev_kind = EV_READ; g_ev_to_file = true; g_ev_file = (int)i; return g_oracle_in; }
static void trace(uint32_t instr_, int instrEnum_);
static void traceSyscall(void);
"""

ACCESSORS = r"""
/* --- the one flat memory array: symbolic-size object, every access asserted in range --- */
uint32_t *memory;
static inline uint32_t RD(uint32_t a) { __CPROVER_assert(a < MEMORY_SIZE_WORDS, "hexsim memory index within the simulated memory"); return memory[a]; }
static inline void WR_(uint32_t a, uint32_t v) { __CPROVER_assert(a < MEMORY_SIZE_WORDS, "hexsim memory store index within the simulated memory"); memory[a] = v; }
#define WR(a, v) WR_((a), (v))
"""

HARNESS = r"""
#ifdef HEX_CBMC
static void trace(uint32_t instr_, int instrEnum_) { __CPROVER_assert(0, "trace() not reachable with tracing off"); }
static void traceSyscall(void) { __CPROVER_assert(0, "traceSyscall() not reachable with tracing off"); }
size_t nondet_size(void); uint32_t nondet_u32(void); int nondet_int(void); _Bool nondet_bool(void);

static void havoc_state(void) {
  size_t n = nondet_size();
  __CPROVER_assume(n >= MEMORY_SIZE_WORDS && n <= 2 * MEMORY_SIZE_WORDS);
  memory = malloc(n * sizeof(uint32_t));
  __CPROVER_assume(memory != NULL);
  pc = nondet_u32(); areg = nondet_u32(); breg = nondet_u32(); oreg = nondet_u32(); instr = nondet_u32();
  lastPC = nondet_u32(); cycles = nondet_size(); maxCycles = nondet_size(); instrEnum = (Instr)nondet_int();
  exitCode = nondet_int();
  for (int i = 0; i < 8; i++) connected[i] = nondet_bool();
  running = true; tracing = false; truncateInputs = true; verif_thrown = false;
  g_io_calls = 0; g_ev_kind = EV_NONE; g_ev_file = 0; g_opens = 0; g_open_idx = -1; g_open_mode = 0; g_open_name = 0; g_ev_to_file = false; g_ev_byte = 0;
  __CPROVER_assume(cycles < (size_t)1 << 62);
}

/* Hoare triple for one iteration of run()'s loop against the ISA specification */
void h_step(void) {
  havoc_state();
  int cex_in = nondet_int();
  __CPROVER_assume(cex_in >= -1 && cex_in <= 255); /* assumed contract of istream::get / fstream::get */
  g_oracle_in = cex_in;
  uint32_t cex_pc = pc, cex_areg = areg, cex_breg = breg, cex_oreg = oreg;
  isa_state s = { pc, areg, breg, oreg, true, 0 };
  isa_write w; isa_event ev; isa_status st;
  isa_step(&s, memory, cex_in, &w, &ev, &st);
  /* quantifier of the property: defined bytes, effective addresses inside the simulated memory */
  __CPROVER_assume(st.defined && st.in_range);
  /* the (at most five) words this step can read, recorded for replay on the real simulator */
  uint32_t cex_opr = cex_oreg | ((memory[cex_pc >> 2] >> ((cex_pc & 3) << 3)) & 0xF);
  uint32_t cex_op = ((memory[cex_pc >> 2] >> ((cex_pc & 3) << 3)) >> 4) & 0xF;
  uint32_t cex_a0 = cex_pc >> 2, cex_a1 = 1;
  uint32_t cex_a2 = (cex_op == 6) ? cex_areg + cex_opr : (cex_op == 7 || cex_op == 8) ? cex_breg + cex_opr : cex_opr;
  if (cex_a2 >= MEMORY_SIZE_WORDS) cex_a2 = 1;
  uint32_t cex_v0 = memory[cex_a0], cex_v1 = memory[1], cex_v2 = memory[cex_a2];
  uint32_t cex_a3 = cex_v1 + 2 < MEMORY_SIZE_WORDS ? cex_v1 + 2 : 1, cex_a4 = cex_v1 + 3 < MEMORY_SIZE_WORDS ? cex_v1 + 3 : 1;
  uint32_t cex_v3 = memory[cex_a3], cex_v4 = memory[cex_a4];
  uint32_t k = nondet_u32(); __CPROVER_assume(k < MEMORY_SIZE_WORDS);
  uint32_t old_k = memory[k];
  int j = nondet_int(); __CPROVER_assume(j >= 0 && j < 8);
  bool old_conn_j = connected[j];
  bool old_conn_f = connected[ev.file_index];
  size_t old_cycles = cycles; int old_exit = exitCode;

  step();

  __CPROVER_assert(!verif_thrown, "C02: no error raised for a defined instruction");
  __CPROVER_assert(pc == s.pc, "C02: pc equals the ISA successor");
  __CPROVER_assert(areg == s.areg, "C02: areg equals the ISA successor");
  __CPROVER_assert(breg == s.breg, "C02: breg equals the ISA successor");
  __CPROVER_assert(oreg == s.oreg, "C02: oreg equals the ISA successor (accumulated by PFIX/NFIX, cleared otherwise)");
  __CPROVER_assert(memory[k] == ((w.wr && w.waddr == k) ? w.wdata : old_k), "C02: memory equals the ISA successor (stored word and frame)");
  __CPROVER_assert(running == s.running, "C02: run continues exactly unless the exit call executed");
  __CPROVER_assert(s.running || exitCode == (int)s.exit_value, "C02: exit value is the word at sp+2");
  __CPROVER_assert(!s.running || exitCode == old_exit, "C02: exit value untouched while running");
  /* I/O event */
  __CPROVER_assert(g_io_calls == ((ev.kind == EV_WRITE || ev.kind == EV_READ) ? 1 : 0), "C02: exactly one stream operation per write/read call, none otherwise");
  __CPROVER_assert(ev.kind == EV_EXIT || ev.kind == EV_NONE || g_ev_kind == (int)ev.kind, "C02: kind of stream operation");
  __CPROVER_assert(!(ev.kind == EV_WRITE || ev.kind == EV_READ) || g_ev_to_file == ev.to_file, "C02: standard stream below 256, file otherwise");
  __CPROVER_assert(!((ev.kind == EV_WRITE || ev.kind == EV_READ) && ev.to_file) || g_ev_file == (int)ev.file_index, "C02: file index is (stream >> 8) & 7");
  __CPROVER_assert(ev.kind != EV_WRITE || g_ev_byte == ev.byte, "C02: byte written is the low byte of the word at sp+2");
  /* files are opened lazily, exactly once, under the right name */
  bool file_op = (ev.kind == EV_WRITE || ev.kind == EV_READ) && ev.to_file;
  __CPROVER_assert(g_opens == ((file_op && !old_conn_f) ? 1 : 0), "C02: a stream file is opened exactly when first used");
  __CPROVER_assert(g_opens == 0 || (g_open_idx == (int)ev.file_index && g_open_name == (ev.kind == EV_WRITE ? 1 : 2) && g_open_mode == (ev.kind == EV_WRITE ? OPEN_out : OPEN_in)),
                   "C02: file opened is simout<n> for writing / simin<n> for reading");
  __CPROVER_assert(connected[j] == (old_conn_j || (file_op && j == (int)ev.file_index)), "C02: connected[] frame");
  /* bookkeeping used by run()'s loop condition and by tracing */
  __CPROVER_assert(cycles == old_cycles + 1 && lastPC == cex_pc, "C02: one instruction retired per iteration");
  __CPROVER_assert(tracing == false && truncateInputs == true, "C02: options untouched");
#ifdef CANARY
  __CPROVER_assert(0, "canary: harness end reachable");
#endif
}

/* run(): the loop executes while running and within the cycle limit; it returns exitCode */
void h_run_loop(void) {
  havoc_state();
  running = nondet_bool();
  bool c = RUN_COND;
  bool spec = running && (maxCycles == 0 || cycles <= maxCycles);
  __CPROVER_assert(c == spec, "C02: run() iterates exactly while running and within --max-cycles");
  __CPROVER_assert(&RUN_RETURNS == &exitCode, "C02: run() returns the exit value");
#ifdef CANARY
  __CPROVER_assert(0, "canary: harness end reachable");
#endif
}

void h_cover(void) {
  havoc_state();
  g_oracle_in = nondet_int(); __CPROVER_assume(g_oracle_in >= -1 && g_oracle_in <= 255);
  isa_state s = { pc, areg, breg, oreg, true, 0 };
  isa_write w; isa_event ev; isa_status st;
  isa_step(&s, memory, g_oracle_in, &w, &ev, &st);
  __CPROVER_assume(st.defined && st.in_range);
  uint32_t op = ((memory[pc >> 2] >> ((pc & 3) << 3)) >> 4) & 0xF;
  step();
  __CPROVER_cover(op == 0); __CPROVER_cover(op == 1); __CPROVER_cover(op == 2); __CPROVER_cover(op == 3); __CPROVER_cover(op == 4);
  __CPROVER_cover(op == 5); __CPROVER_cover(op == 6); __CPROVER_cover(op == 7); __CPROVER_cover(op == 8); __CPROVER_cover(op == 9);
  __CPROVER_cover(op == 10); __CPROVER_cover(op == 11); __CPROVER_cover(op == 13); __CPROVER_cover(op == 14); __CPROVER_cover(op == 15);
  __CPROVER_cover(ev.kind == EV_WRITE && ev.to_file); __CPROVER_cover(ev.kind == EV_WRITE && !ev.to_file);
  __CPROVER_cover(ev.kind == EV_READ && ev.to_file && g_opens == 1); __CPROVER_cover(ev.kind == EV_READ && !ev.to_file && g_oracle_in == -1);
  __CPROVER_cover(ev.kind == EV_EXIT && !running); __CPROVER_cover(w.wr && w.waddr == MEMORY_SIZE_WORDS - 1);
  __CPROVER_cover(op == 11 && (int)areg < 0); __CPROVER_cover(op == 13 && s.pc == breg && breg > 1000);
}
#else
static void trace(uint32_t instr_, int instrEnum_) {}
static void traceSyscall(void) {}
#endif

/* exported for the native fidelity run: one step on caller-provided memory */
typedef struct { uint32_t pc, areg, breg, oreg; int running, exitCode, thrown; int io_calls, ev_kind, ev_to_file, ev_file, ev_byte; } XState;
void X_step(XState *x, uint32_t *mem, int in_byte) {
  memory = mem; pc = x->pc; areg = x->areg; breg = x->breg; oreg = x->oreg; running = true; tracing = false; truncateInputs = true;
  verif_thrown = false; g_io_calls = 0; g_ev_kind = 0; g_ev_to_file = 0; g_ev_file = 0; g_ev_byte = 0; g_oracle_in = in_byte; exitCode = 0;
  for (int i = 0; i < 8; i++) connected[i] = true; /* no opens in the fidelity run */
  step();
  x->pc = pc; x->areg = areg; x->breg = breg; x->oreg = oreg; x->running = running; x->exitCode = exitCode; x->thrown = verif_thrown;
  x->io_calls = g_io_calls; x->ev_kind = g_ev_kind; x->ev_to_file = g_ev_to_file; x->ev_file = g_ev_file; x->ev_byte = g_ev_byte;
}
"""


def build_unit(chk):
    m = chk.manifest
    en, _ = asmx.enums(m)
    fld, names = simx.fields(m)
    io, in_ty = simx.io_fns(m)
    sysc = simx.syscall_fn(m, in_ty)
    cond, step, ret = simx.run_parts(m)
    text = (PRELUDE.replace('#include "isa.h"\n', '#include "isa.h"\n' + en, 1)
            + fld + ACCESSORS + io + sysc + step + "#define RUN_COND (%s)\n#define RUN_RETURNS %s\n" % (cond, ret) + HARNESS)
    return chk.write("c02_unit.c", text)


def native(chk, unit):
    obj = os.path.join(chk.out, "c02_unit.o")
    rc, o, e, _ = hv.run(["gcc", "-O1", "-w", "-std=gnu11", "-c", "-I", os.path.join(hv.VERIF, "spec"), unit, "-o", obj], timeout=120)
    if rc != 0:
        raise hv.Infra("native build of extracted unit failed: " + e[-2000:])
    exe = os.path.join(chk.out, "c02_native")
    hv.build_native(os.path.join(hv.VERIF, "native", "c02_native.cpp"), exe, extra=[obj, os.path.join(hv.REPO, "hex.cpp")])
    return exe


def replay_state(exe, st):
    args = [exe, "replay"] + [str(st[k]) for k in ("pc", "areg", "breg", "oreg", "in")] + [str(x) for x in st["mem"]]
    rc, o, e, _ = hv.run(args, timeout=60)
    try:
        return json.loads(o)
    except Exception:
        if rc < 0 or rc >= 128:
            return {"ok": False, "why": "real simulator crashed (rc=%d) executing this instruction" % rc}
        return {"ok": None, "error": (o + e)[-500:]}


def main(chk, replay_file):
    tier = chk.tier
    unit = build_unit(chk)
    chk.functions = ["hexsim::Processor::run (loop body, loop condition, return)", "hexsim::Processor::syscall", "hex::HexSimIO::output", "hex::HexSimIO::input"]
    chk.trusted = ["CBMC 6.11.0 + MiniSat", "extractor rules in lib/simx.py, prelude in checks/c02.py (RD/WR accessors, ghost I/O stubs)",
                   "spec/isa.h isa_step (transcribed from docs/PDFs/hexb.pdf pp. 6-10)",
                   "istream::get/fstream::get return -1..255; ostream<<char / fstream::put write one byte; fstream::open opens the named file"]
    chk.assumptions = [
        "whole-run claim = induction over steps (paper glue); per-step obligations are proved for all states",
        "tracing off and truncateInputs on (the hexsim defaults); tracing is covered by C12",
        "C++ exceptions abstracted to a ghost flag; std::array<uint32_t,200000> modelled as one flat object with every index asserted < 200000",
        "char is signed and int->char conversion keeps the low 8 bits (gcc/clang on x86-64)",
        "excluded by the property: opcode 0xC, OPR operands above 3, system calls above 2, addresses outside the simulated memory",
    ]
    if replay_file:
        exe = native(chk, unit)
        d = json.load(open(replay_file))
        r = replay_state(exe, d["state"])
        print(json.dumps(r))
        return 0 if r.get("ok") else 1
    J = hv.Job
    jobs = [
        J("step.contract", unit, "h_step", functions=["run() loop body", "syscall", "HexSimIO::output", "HexSimIO::input"],
          note="loop-free; all 2^128 register states x all memory contents x all defined bytes"),
        J("run_loop.contract", unit, "h_run_loop", functions=["run() loop condition and return"]),
        J("step.canary", unit, "h_step", defines=["CANARY"], kind="canary", checks=[]),
        J("run_loop.canary", unit, "h_run_loop", defines=["CANARY"], kind="canary", checks=[]),
        J("step.cover", unit, "h_cover", kind="cover", cover=True, checks=[]),
    ]
    if tier == "thorough":
        jobs.append(J("step.contract@cvc5", unit, "h_step", solver=["--cvc5"], timeout=3000, note="second back end"))
    chk.jobs = jobs
    hv.run_jobs(jobs, chk.out)
    exe = native(chk, unit)
    n = 200000 if tier == "quick" else 20000000
    rc, o, e, secs = hv.run([exe, "fidelity", str(chk.seed), str(n)], timeout=3000)
    try:
        fid = json.loads(o)
    except Exception:
        raise hv.Infra("fidelity run failed: " + (o + e)[-800:])
    fid.update({"stage": "real hexsim::Processor (one instruction through the HEX_VERIF accessor) vs extracted step vs isa_step on seeded states", "secs": round(secs, 1)})
    chk.native.append(fid)
    if fid.get("extract_mismatches", 1) != 0:
        raise hv.Infra("extraction fidelity mismatch (extractor bug, not a verdict): %s" % fid.get("first_extract"))
    if fid.get("spec_mismatches", 0) != 0:
        st = fid["first_spec"]
        p = chk.replay_path("native-%s" % st["pc"])
        r = replay_state(exe, st)
        json.dump({"property": PID, "obligation": "native fidelity sweep: real step != isa_step", "state": st, "real_code_result": r}, open(p, "w"), indent=1)
        chk.add_violation("native-sweep", p, "real hexsim step differs from the ISA on %s" % st, True)

    for j in jobs:
        r = j.result
        if j.kind != "proof" or r["status"] != "failed":
            continue
        replayed = False
        for f in r["failed"]:
            cex = f.get("cex", {})
            try:
                st = {"pc": hv.parse_c_int(cex["cex_pc"]), "areg": hv.parse_c_int(cex["cex_areg"]), "breg": hv.parse_c_int(cex["cex_breg"]),
                      "oreg": hv.parse_c_int(cex["cex_oreg"]), "in": hv.parse_c_int(cex.get("cex_in", "0")), "mem": []}
                for q in range(5):
                    st["mem"] += [hv.parse_c_int(cex["cex_a%d" % q]), hv.parse_c_int(cex["cex_v%d" % q])]
            except (KeyError, ValueError):
                st = None
            name = j.name + ":" + f["name"]
            if st is not None:
                rr = replay_state(exe, st)
                if rr.get("ok") is False:
                    p = chk.replay_path(f["name"])
                    json.dump({"property": PID, "obligation": name, "desc": f["desc"], "state": st, "real_code_result": rr,
                               "how": "./check C02 --replay " + p}, open(p, "w"), indent=1)
                    chk.add_violation(name, p, "%s; real hexsim: %s" % (f["desc"], rr.get("why")), True)
                    replayed = True
                    continue
            # property-level obligation failed, nothing replays
            p = chk.replay_path(f["name"])
            json.dump({"property": PID, "obligation": name, "desc": f["desc"], "verifier_counterexample": cex, "replay_attempt": st}, open(p, "w"), indent=1)
            chk.add_violation(name, p, f["desc"], False)
    return chk.finish()

"""C02 -- hexsim executes every instruction exactly as the Hex ISA defines.

Unit (text extracted from /repo/hexsim.hpp, hexsimio.hpp on every run):
  step()        = body of the while loop of Processor::run()
  syscall()     = Processor::syscall()
  io_output/io_input = HexSimIO::output/input (stream operations -> ghost event stubs)
  loop condition and return value of run()
Contract of step (harness h_step): for every architectural state, every defined instruction byte,
every memory content with in-range addresses: post-state, stored word + memory frame (ghost index),
I/O event, file-open discipline, running/exit value equal spec/isa.h isa_step (transcribed from
hexb.pdf).  Induction over steps to whole runs is paper glue.
"""
import json
import os
import re

import hv
import asmx
import simx
import simunit

PID = "C02"

IO_OUTPUT_CONTRACT = """
/* HexSimIO::output: one stream operation; streams below 256 (as a signed int) go to the standard stream, others to the
   lazily opened file simout<(stream >> 8) & 7>; nothing else changes */
__CPROVER_requires(g_io_calls >= 0 && g_io_calls < 1000 && g_opens >= 0 && g_opens < 1000)
__CPROVER_ensures(g_io_calls == __CPROVER_old(g_io_calls) + 1 && g_ev_kind == EV_WRITE && g_ev_byte == (uint8_t)value)
__CPROVER_ensures(g_ev_to_file == !(stream < 256))
__CPROVER_ensures(stream < 256 ==> g_opens == __CPROVER_old(g_opens))
__CPROVER_ensures(!(stream < 256) ==> (g_ev_file == ((stream >> 8) & 7) && connected[(stream >> 8) & 7] &&
                  g_opens == __CPROVER_old(g_opens) + (__CPROVER_old(connected[(stream >> 8) & 7]) ? 0 : 1)))
__CPROVER_ensures((!(stream < 256) && !__CPROVER_old(connected[(stream >> 8) & 7])) ==> (g_open_idx == ((stream >> 8) & 7) && g_open_name == 1 && g_open_mode == OPEN_out))
__CPROVER_assigns(g_io_calls, g_ev_kind, g_ev_to_file, g_ev_file, g_ev_byte, g_opens, g_open_idx, g_open_mode, g_open_name, connected[(stream >> 8) & 7])
"""
IO_INPUT_CONTRACT = """
/* HexSimIO::input: one stream operation returning the next byte of the selected stream (the harness oracle), -1 at end */
__CPROVER_requires(g_io_calls >= 0 && g_io_calls < 1000 && g_opens >= 0 && g_opens < 1000 && g_oracle_in >= -1 && g_oracle_in <= 255)
__CPROVER_ensures(g_io_calls == __CPROVER_old(g_io_calls) + 1 && g_ev_kind == EV_READ && ((int)__CPROVER_return_value & 0xFF) == (g_oracle_in & 0xFF))
__CPROVER_ensures(g_ev_to_file == !(stream < 256))
__CPROVER_ensures(stream < 256 ==> g_opens == __CPROVER_old(g_opens))
__CPROVER_ensures(!(stream < 256) ==> (g_ev_file == ((stream >> 8) & 7) && connected[(stream >> 8) & 7] &&
                  g_opens == __CPROVER_old(g_opens) + (__CPROVER_old(connected[(stream >> 8) & 7]) ? 0 : 1)))
__CPROVER_ensures((!(stream < 256) && !__CPROVER_old(connected[(stream >> 8) & 7])) ==> (g_open_idx == ((stream >> 8) & 7) && g_open_name == 2 && g_open_mode == OPEN_in))
__CPROVER_assigns(g_io_calls, g_ev_kind, g_ev_to_file, g_ev_file, g_opens, g_open_idx, g_open_mode, g_open_name, connected[(stream >> 8) & 7])
"""
SYSCALL_CONTRACT = """
/* Processor::syscall: sp = mem[1]; 0: exit with mem[sp+2]; 1: simout(mem[sp+2], mem[sp+3]); 2: mem[sp+1] = simin(mem[sp+2]) & 0xFF */
__CPROVER_requires(areg <= 2 && truncateInputs && !verif_thrown && memory[1] + 3 > memory[1] && memory[1] + 3 < MEMORY_SIZE_WORDS)
__CPROVER_requires(g_io_calls >= 0 && g_io_calls < 1000 && g_opens >= 0 && g_opens < 1000 && g_oracle_in >= -1 && g_oracle_in <= 255)
__CPROVER_ensures(!verif_thrown)
__CPROVER_ensures(areg == 0 ==> (!running && exitCode == (int)memory[memory[1] + 2] && g_io_calls == __CPROVER_old(g_io_calls)))
__CPROVER_ensures(areg != 0 ==> (running == __CPROVER_old(running) && exitCode == __CPROVER_old(exitCode) && g_io_calls == __CPROVER_old(g_io_calls) + 1))
__CPROVER_ensures(areg == 1 ==> (g_ev_kind == EV_WRITE && g_ev_byte == (uint8_t)memory[memory[1] + 2] && g_ev_to_file == !((int)memory[memory[1] + 3] < 256) &&
                  (!g_ev_to_file || g_ev_file == (int)((memory[memory[1] + 3] >> 8) & 7))))
__CPROVER_ensures(areg == 2 ==> (g_ev_kind == EV_READ && memory[__CPROVER_old(memory[1]) + 1] == ((uint32_t)g_oracle_in & 0xFFu) && g_ev_to_file == !((int)__CPROVER_old(memory[memory[1] + 2]) < 256)))
__CPROVER_ensures(areg != 2 ==> memory[__CPROVER_old(memory[1]) + 1] == __CPROVER_old(memory[memory[1] + 1]))
__CPROVER_assigns(running, exitCode, verif_thrown, g_io_calls, g_ev_kind, g_ev_to_file, g_ev_file, g_ev_byte, g_opens, g_open_idx, g_open_mode, g_open_name,
                  __CPROVER_object_whole(connected))
__CPROVER_assigns(areg == 2: memory[memory[1] + 1])
"""
IO_HARNESS = r"""
#ifdef HEX_CBMC
char nondet_char(void);
void h_io_output(void) { for (int i = 0; i < 8; i++) connected[i] = nondet_bool(); g_io_calls = nondet_int(); g_opens = nondet_int(); io_output(nondet_char(), nondet_int()); }
void h_syscall(void) { havoc_state(); g_io_calls = nondet_int(); g_opens = nondet_int(); g_oracle_in = nondet_int(); syscall(); }
void h_io_input(void) { for (int i = 0; i < 8; i++) connected[i] = nondet_bool(); g_io_calls = nondet_int(); g_opens = nondet_int(); g_oracle_in = nondet_int(); io_input(nondet_int()); }
#endif
"""


def build_unit(chk):
    text = simunit.unit_text(chk)
    # per-function contracts of the stream routing, spliced on the extracted signatures (enforced through dfcc as auxiliary jobs)
    for sig, contract in (("static void io_output(char value, int stream) {", IO_OUTPUT_CONTRACT), ("static char io_input(int stream) {", IO_INPUT_CONTRACT),
                          ("static void syscall(void) {", SYSCALL_CONTRACT)):
        if text.count(sig) != 1:
            raise hv.ExtractionError("cannot splice the contract: signature %r not found exactly once" % sig)
        text = text.replace(sig, sig[:-1].rstrip() + contract + "{", 1)
    return chk.write("c02_unit.c", text + simunit.HARNESS + IO_HARNESS)


def native(chk, unit):
    exe = os.path.join(chk.out, "c02_native")
    if unit is None:
        hv.build_native(os.path.join(hv.VERIF, "native", "c02_native.cpp"), exe, extra=["-DNO_EXTRACTED", os.path.join(hv.REPO, "hex.cpp")])
        return exe
    obj = simunit.native_obj(chk, unit, "c02_unit")
    hv.build_native(os.path.join(hv.VERIF, "native", "c02_native.cpp"), exe, extra=[obj, os.path.join(hv.REPO, "hex.cpp")])
    return exe


def native_stage(chk, exe, extracted=True):
    n = 200000 if chk.tier == "quick" else 20000000
    rc, o, e, secs = hv.run([exe, "fidelity", str(chk.seed), str(n)], timeout=3000)
    if rc < 0 or rc >= 128:
        # the real simulator died on a state inside the property's quantifier (the sweep only steps defined, in-range states)
        p = chk.replay_path("native-crash")
        json.dump({"property": PID, "obligation": "native sweep", "what": "real hexsim::Processor crashed (rc=%d) while executing one defined instruction from a seeded state" % rc,
                   "reproduce": "%s fidelity %d %d" % (exe, chk.seed, n)}, open(p, "w"), indent=1)
        chk.add_violation("native-sweep", p, "real hexsim crashed (rc=%d) executing a defined, in-range instruction during the seeded state sweep" % rc, True)
        return
    try:
        fid = json.loads(o)
    except Exception:
        raise hv.Infra("fidelity run failed: " + (o + e)[-800:])
    fid.update({"stage": "real hexsim::Processor (one instruction through the HEX_VERIF accessor) vs %sisa_step on seeded states" % ("extracted step vs " if extracted else ""), "secs": round(secs, 1)})
    chk.native.append(fid)
    if extracted and fid.get("extract_mismatches", 1) != 0:
        raise hv.Infra("extraction fidelity mismatch (extractor bug, not a verdict): %s" % fid.get("first_extract"))
    if fid.get("spec_mismatches", 0) != 0:
        st = fid["first_spec"]
        p = chk.replay_path("native-%s" % st["pc"])
        r = replay_state(exe, st)
        json.dump({"property": PID, "obligation": "native fidelity sweep: real step != isa_step", "state": st, "real_code_result": r}, open(p, "w"), indent=1)
        chk.add_violation("native-sweep", p, "real hexsim step differs from the ISA on %s" % st, True)
    # stream routing corners (streams 0, 255, 256, 2047, 2048, 4096+k, negative) through the real HexSimIO, files checked on disk
    for st in STREAM_CASES:
        r = replay_state(exe, st)
        if r.get("ok") is False:
            p = chk.replay_path("stream-%s" % st["mem"][9])
            json.dump({"property": PID, "obligation": "native stream-routing case", "state": st, "real_code_result": r, "how": "./check C02 --replay " + p}, open(p, "w"), indent=1)
            chk.add_violation("native-streams", p, "stream routing: %s" % r.get("why"), True)
            break
    chk.native.append({"stage": "stream-routing corner cases through the real HexSimIO (files checked on disk)", "cases": len(STREAM_CASES)})
    # several instructions inside ONE call of the real run() (state the interpreter carries between iterations), including
    # code that stores into the word it is executing
    nm = 3000 if chk.tier == "quick" else 300000
    rc, o, e, secs = hv.run([exe, "multisweep", str(chk.seed), str(nm)], timeout=3000)
    try:
        ms = json.loads(o)
    except Exception:
        if rc < 0 or rc >= 128:
            p = chk.replay_path("native-multi-crash")
            json.dump({"property": PID, "obligation": "native multi-step sweep", "what": "real hexsim crashed (rc=%d)" % rc, "reproduce": "%s multisweep %d %d" % (exe, chk.seed, nm)}, open(p, "w"), indent=1)
            chk.add_violation("native-multistep", p, "real hexsim crashed (rc=%d) during runs of 2..6 defined, in-range instructions" % rc, True)
            return
        raise hv.Infra("multi-step sweep failed: " + (o + e)[-800:])
    ms.update({"stage": "runs of 2..6 instructions inside one call of the real run() vs isa_step applied as often (incl. stores into the executing word)", "secs": round(secs, 1)})
    chk.native.append(ms)
    if ms.get("mismatches", 0):
        f = ms["first"]
        p = chk.replay_path("native-multistep")
        json.dump({"property": PID, "obligation": "native multi-step sweep: one real run() of K instructions != isa_step^K", "multi": f, "how": "./check C02 --replay " + p}, open(p, "w"), indent=1)
        chk.add_violation("native-multistep", p, "a run of %d instructions differs from the ISA: %s (pc=%d)" % (f["K"], f["why"], f["pc"]), True)


def _stream_case(syscall, stream, byte=65, in_byte=120):
    # pc=0: OPR SVC (0xD3); sp=16 at word 1; mem[18]=byte, mem[19]=stream (write) / mem[18]=stream (read)
    if syscall == 1:
        return {"pc": 0, "areg": 1, "breg": 0, "oreg": 0, "in": in_byte, "mem": [0, 0xD3, 1, 16, 18, byte, 19, stream, 17, 0]}
    return {"pc": 0, "areg": 2, "breg": 0, "oreg": 0, "in": in_byte, "mem": [0, 0xD3, 1, 16, 18, stream, 19, 0, 17, 0]}


STREAM_CASES = [_stream_case(sc, s) for sc in (1, 2) for s in (0, 255, 256, 511, 2047, 2048, 2303, 4096, 65536 + 512, 0x80000000, 0xFFFFFF00, 0x80000300)]


OPC = {"LDAM": 0, "LDBM": 1, "STAM": 2, "LDAC": 3, "LDBC": 4, "LDAP": 5, "LDAI": 6, "LDBI": 7, "STAI": 8, "BR": 9, "BRZ": 10, "BRN": 11, "OPR": 13}


def _enc(op, v):
    """prefix chain + instruction byte for a non-negative operand"""
    n = 1
    while (v >> (4 * n)) != 0:
        n += 1
    return bytes([0xE0 | ((v >> (4 * i)) & 0xF) for i in range(n - 1, 0, -1)] + [(OPC[op] << 4) | (v & 0xF)])


def cli_stage(chk):
    """the hexsim EXECUTABLE (hexsim.cpp's main) on a program that writes to a stream file, echoes one input byte to
    standard output and exits with a value: bytes in simout2, standard output and process status are what the ISA run defines"""
    exe = os.path.join(chk.out, "hexsim_cli")
    hv.build_native(os.path.join(hv.REPO, "hexsim.cpp"), exe, extra=[os.path.join(hv.REPO, "hex.cpp")], opt="-O1", hooks=False)
    code = b""
    def write(ch, stream):
        return b"".join([_enc("LDBM", 1), _enc("LDAC", ch), _enc("STAI", 2), _enc("LDAC", stream), _enc("STAI", 3), _enc("LDAC", 1), _enc("OPR", 3)])
    for ch in b"Hex!\n":
        code += write(ch, 512)
    code += b"".join([_enc("LDBM", 1), _enc("LDAC", 0), _enc("STAI", 2), _enc("LDAC", 2), _enc("OPR", 3)])          # read stdin -> mem[sp+1]
    code += b"".join([_enc("LDAM", 1), _enc("LDAI", 1), _enc("LDBM", 1), _enc("STAI", 2), _enc("LDAC", 0), _enc("STAI", 3), _enc("LDAC", 1), _enc("OPR", 3)])   # echo to stdout
    code += b"".join([_enc("LDBM", 1), _enc("LDAC", 7), _enc("STAI", 2), _enc("LDAC", 0), _enc("OPR", 3)])          # exit(7)
    img = bytes([0x97, 0, 0, 0]) + (1000).to_bytes(4, "little") + code
    img += b"\0" * (-len(img) % 4)
    d = os.path.join(chk.out, "scratch", "cli")
    os.makedirs(d, exist_ok=True)
    open(os.path.join(d, "p.bin"), "wb").write((len(img) // 4).to_bytes(4, "little") + img)
    import subprocess
    try:
        r = subprocess.run([exe, "p.bin"], cwd=d, input=b"Q", capture_output=True, timeout=60)
        rc, out = r.returncode, r.stdout
    except subprocess.TimeoutExpired:
        rc, out = -9, b""
    try:
        fout = open(os.path.join(d, "simout2"), "rb").read()
    except OSError:
        fout = None
    why = ""
    if rc != 7:
        why = "process status %s instead of 7" % rc
    elif out != b"Q":
        why = "standard output %r instead of b'Q'" % out
    elif fout != b"Hex!\n":
        why = "file simout2 holds %r after the run instead of b'Hex!\\n'" % fout
    if not why:
        # the same run with -t: tracing only adds text, the step still happens (status, stream file and the echoed byte at
        # the end of the SVC's trace line)
        try:
            os.remove(os.path.join(d, "simout2"))
        except OSError:
            pass
        try:
            r = subprocess.run([exe, "p.bin", "-t"], cwd=d, input=b"Q", capture_output=True, timeout=60)
            try:
                fout = open(os.path.join(d, "simout2"), "rb").read()
            except OSError:
                fout = None
            if r.returncode != 7:
                why = "with -t: process status %s instead of 7 (%s)" % (r.returncode, r.stderr[-120:].decode("latin-1"))
            elif fout != b"Hex!\n":
                why = "with -t: file simout2 holds %r instead of b'Hex!\\n'" % fout
        except subprocess.TimeoutExpired:
            why = "with -t: the run does not end"
    chk.native.append({"stage": "hexsim executable (hexsim.cpp main) on a program writing to stream 512, echoing an input byte and exiting with 7: simout2, stdout, status; the same with -t", "ok": not why, "why": why})
    if why:
        p = chk.replay_path("native-cli")
        json.dump({"property": PID, "obligation": "hexsim executable: stream files, standard output and status of a run", "what": why,
                   "how": "run %s p.bin in %s with input 'Q' and look at simout2" % (exe, d)}, open(p, "w"), indent=1)
        chk.add_violation("native-cli", p, "hexsim executable: " + why, True)


def native_only(chk):
    exe = native(chk, None)
    native_stage(chk, exe, extracted=False)
    cli_stage(chk)


def replay_state(exe, st):
    args = [exe, "replay"] + [str(st[k]) for k in ("pc", "areg", "breg", "oreg", "in")] + [str(x) for x in st["mem"]]
    rc, o, e, _ = hv.run(args, timeout=60)
    try:
        return json.loads(o)
    except Exception:
        if rc < 0 or rc >= 128:
            return {"ok": False, "why": "real simulator crashed (rc=%d) executing this instruction" % rc}
        return {"ok": None, "error": (o + e)[-500:]}


def replay_multi(exe, f):
    args = [exe, "multi", str(f["K"]), str(f["pc"]), str(f["areg"]), str(f["breg"]), str(f["oreg"]), str(len(f["input"]))] + [str(x) for x in f["input"]] + [str(x) for x in f["mem"]]
    rc, o, e, _ = hv.run(args, timeout=60)
    try:
        return json.loads(o)
    except Exception:
        if rc < 0 or rc >= 128:
            return {"ok": False, "why": "real simulator crashed (rc=%d) during this run" % rc}
        return {"ok": None, "error": (o + e)[-500:]}


def ksteps_cex(cex, K):
    """counterexample of h_ksteps -> initial state + the memory words the run reads before writing them"""
    g = lambda k: hv.parse_c_int(cex[k])
    arr = {}
    for k, v in cex.items():
        mm = re.fullmatch(r"(cex_\w+?)((?:\[\d+l*\])+)", k)
        if mm:
            idx = tuple(int(x) for x in re.findall(r"\[(\d+)", mm.group(2)))
            try:
                arr[(mm.group(1),) + idx] = hv.parse_c_int(v)
            except ValueError:
                pass
    n = g("cex_n")
    planted, written, mem, inp = set(), set(), [], []
    for i in range(n):
        for q in range(5):
            a, v = arr[("cex_ra", i, q)], arr[("cex_rv", i, q)]
            if a not in planted and a not in written:
                planted.add(a); mem += [a, v]
        if arr.get(("cex_wr", i)):
            written.add(arr[("cex_wa", i)])
        b = arr.get(("cex_inb", i), -1)
        if b >= 0:
            inp.append(b)   # replay feeds the bytes in order; a byte is consumed only by a READ
    return {"K": n, "pc": g("cex_pc"), "areg": g("cex_areg"), "breg": g("cex_breg"), "oreg": g("cex_oreg"), "input": inp, "mem": mem}


def main(chk, replay_file):
    tier = chk.tier
    unit = build_unit(chk)
    chk.functions = ["hexsim::Processor::run (loop body, loop condition, return)", "hexsim::Processor::syscall", "hex::HexSimIO::output", "hex::HexSimIO::input"]
    chk.trusted = ["CBMC 6.11.0 + MiniSat", "extractor rules in lib/simx.py, prelude in checks/c02.py (RD/WR accessors, ghost I/O stubs)",
                   "spec/isa.h isa_step (transcribed from docs/PDFs/hexb.pdf pp. 6-10)",
                   "istream::get/fstream::get return -1..255; ostream<<char / fstream::put write one byte; fstream::open opens the named file"]
    chk.assumptions = [
        "whole-run claim = induction over steps (paper glue); per-step obligations are proved for all states",
        "tracing off and truncateInputs on (the hexsim defaults); tracing is covered by C12",
        "C++ exceptions abstracted to a ghost flag; std::array<uint32_t,200000> modelled as one flat object with every index asserted < 200000",
        "char is signed and int->char conversion keeps the low 8 bits (gcc/clang on x86-64)",
        "excluded by the property: opcode 0xC, OPR operands above 3, system calls above 2, addresses outside the simulated memory",
    ]
    if replay_file:
        exe = native(chk, unit)
        d = json.load(open(replay_file))
        r = replay_multi(exe, d["multi"]) if "multi" in d else replay_state(exe, d["state"])
        print(json.dumps(r))
        return 0 if r.get("ok") else 1
    J = hv.Job
    K = 2 if tier == "quick" else 3
    hidden = chk.extra.get("hidden_state", [])
    if hidden:
        chk.assumptions.append("the interpreter carries state between iterations that the architecture does not have (%s): step.contract treats it as arbitrary" % ", ".join(hidden))
    jobs = [
        J("step.contract", unit, "h_step", functions=["run() loop body", "syscall", "HexSimIO::output", "HexSimIO::input"],
          note="loop-free; all 2^128 register states x all memory contents x all defined bytes"),
        J("run_loop.contract", unit, "h_run_loop", functions=["run() loop condition and return"]),
        J("io_output.contract", unit, "h_io_output", enforce="io_output", unwind=9, functions=["HexSimIO::output"], role="aux"),
        J("io_input.contract", unit, "h_io_input", enforce="io_input", unwind=9, functions=["HexSimIO::input"], role="aux"),
        J("syscall.contract", unit, "h_syscall", enforce="syscall", replace=["io_output", "io_input"], unwind=40, object_bits=12, functions=["Processor::syscall"], role="aux",
          note="checked against the contracts of HexSimIO::output/input (calls replaced)"),
        J("run.ksteps.bounded", unit, "h_ksteps", defines=["KSTEPS=%d" % K], unwind=max(K + 1, 9), kind="bounded", bounded=True, timeout=1800, mem_est=4,
          functions=["run() entry + %d consecutive loop iterations" % K],
          note="BOUNDED: %d consecutive iterations entered the way run() enters its loop; stands in for the induction only as far as state carried between iterations is concerned" % K),
        J("run.ksteps.cover", unit, "h_ksteps", defines=["KSTEPS=%d" % K, "COVER_BY_ASSERT"], unwind=max(K + 1, 9), kind="cover", cover_by_assert=True, checks=[], timeout=1800, mem_est=4,
          note="reachability: the first iteration stores into the word the second iteration fetches from"),
        J("run.ksteps.canary", unit, "h_ksteps", defines=["KSTEPS=%d" % K, "CANARY"], unwind=max(K + 1, 9), kind="canary", checks=[], timeout=1800, mem_est=4),
        J("step.canary", unit, "h_step", defines=["CANARY"], kind="canary", checks=[]),
        J("run_loop.canary", unit, "h_run_loop", defines=["CANARY"], kind="canary", checks=[]),
        J("step.cover", unit, "h_cover", kind="cover", cover=True, checks=[]),
    ]
    if tier == "thorough":
        jobs.append(J("step.contract@cvc5", unit, "h_step", solver=["--cvc5"], timeout=3000, note="second back end"))
    chk.jobs = jobs
    hv.run_jobs(jobs, chk.out)
    exe = native(chk, unit)
    native_stage(chk, exe)
    cli_stage(chk)

    for j in jobs:
        r = j.result
        if j.kind == "bounded" and r["status"] == "failed":
            # counterexamples of the K-step harness are concrete short runs: replay them through one call of the real run()
            for f in r["failed"]:
                name = j.name + ":" + f["name"]
                try:
                    mf = ksteps_cex(f.get("cex", {}), K)
                except (KeyError, ValueError):
                    mf = None
                rr = replay_multi(exe, mf) if mf else {"ok": None}
                p = chk.replay_path(f["name"] + ".ksteps")
                if rr.get("ok") is False:
                    json.dump({"property": PID, "obligation": name, "desc": f["desc"], "multi": mf, "real_code_result": rr, "how": "./check C02 --replay " + p}, open(p, "w"), indent=1)
                    chk.add_violation(name, p, "%s; real hexsim, one run() of %d instructions: %s" % (f["desc"], mf["K"], rr.get("why")), True)
                else:
                    json.dump({"property": PID, "obligation": name, "desc": f["desc"], "verifier_counterexample": f.get("cex", {}), "replay_attempt": mf, "real_code_result": rr}, open(p, "w"), indent=1)
                    chk.add_violation(name, p, f["desc"], False)
            continue
        if j.kind != "proof" or r["status"] != "failed":
            continue
        if j.role == "aux":
            # per-function contracts that fail while the complete step obligation holds: contract drift, not a violation
            for f in r["failed"]:
                chk.warnings.append("%s:%s %s" % (j.name, f["name"], f["desc"]))
            continue
        replayed = False
        for f in r["failed"]:
            cex = f.get("cex", {})
            try:
                st = {"pc": hv.parse_c_int(cex["cex_pc"]), "areg": hv.parse_c_int(cex["cex_areg"]), "breg": hv.parse_c_int(cex["cex_breg"]),
                      "oreg": hv.parse_c_int(cex["cex_oreg"]), "in": hv.parse_c_int(cex.get("cex_in", "0")), "mem": []}
                for q in range(5):
                    st["mem"] += [hv.parse_c_int(cex["cex_a%d" % q]), hv.parse_c_int(cex["cex_v%d" % q])]
            except (KeyError, ValueError):
                st = None
            name = j.name + ":" + f["name"]
            if st is not None:
                rr = replay_state(exe, st)
                if rr.get("ok") is False:
                    p = chk.replay_path(f["name"])
                    json.dump({"property": PID, "obligation": name, "desc": f["desc"], "state": st, "real_code_result": rr,
                               "how": "./check C02 --replay " + p}, open(p, "w"), indent=1)
                    chk.add_violation(name, p, "%s; real hexsim: %s" % (f["desc"], rr.get("why")), True)
                    replayed = True
                    continue
            if hidden and j.name.startswith("step.contract"):
                # the inductive step fails only for SOME value of the hidden loop-carried state, which may be unreachable:
                # without an invariant for that state this is no verdict. The K-step job and the native multi-step sweep
                # decide what they can reach; beyond that the property is undecided, not violated.
                chk.undecided.append("%s %s -- fails for an arbitrary value of the hidden interpreter state (%s); no invariant for that state is available" % (name, f["desc"], ", ".join(hidden)))
                continue
            # property-level obligation failed, nothing replays
            p = chk.replay_path(f["name"])
            json.dump({"property": PID, "obligation": name, "desc": f["desc"], "verifier_counterexample": cex, "replay_attempt": st}, open(p, "w"), indent=1)
            chk.add_violation(name, p, f["desc"], False)
    return chk.finish()

"""C12 -- a simulator run depends only on the binary, the input and the options.

Obligations (extracted text of hexsim.hpp: constructor initialiser list, load(), run() loop body, syscall, trace,
traceSyscall, HexSimIO):
  init.determined   2-safety by sequential self-composition: from two arbitrary host states (all fields and the whole
                    memory array havoced) constructor + load of the same file leave every field the run can read equal,
                    and memory outside the image reads as zero
  step.traced       the C02 step contract with tracing ON and the real trace()/traceSyscall(): same ISA successor,
                    same I/O events, same exit value, every trace read inside the simulated memory
  trace.frame       trace()/traceSyscall() assign nothing but the ghost text log (dfcc assigns clause enforced)
  run_loop          cycle-limited run returns exitCode (determined by init, changed only by the exit call: C02)
"""
import json
import os

import hv
import simunit

PID = "C12"

C12_HARNESS = r"""
#ifdef HEX_CBMC
static void havoc_host(size_t mc) {
  /* arbitrary host memory: every member indeterminate, the array arbitrary */
  size_t n = nondet_size();
  __CPROVER_assume(n >= MEMORY_SIZE_WORDS && n <= 2 * MEMORY_SIZE_WORDS);
  memory = malloc(n * 4); /* byte-sized allocation: CBMC 6.11 mis-handles __CPROVER_array_replace into a typed uint32_t[n] object (probe in DESIGN.md) */
  __CPROVER_assume(memory != NULL);
  pc = nondet_u32(); areg = nondet_u32(); breg = nondet_u32(); oreg = nondet_u32(); instr = nondet_u32();
  lastPC = nondet_u32(); cycles = nondet_size(); maxCycles = nondet_size(); instrEnum = (Instr)nondet_int();
  exitCode = nondet_int(); running = nondet_bool(); tracing = nondet_bool(); truncateInputs = nondet_bool();
  for (int i = 0; i < 8; i++) connected[i] = nondet_bool();
  g_u32_reads = 0; g_reads_mem = 0; g_dbg_pos = 0;
}
typedef struct { uint32_t pc, areg, breg, oreg, lastPC, memk; size_t cycles, maxCycles; int exitCode; bool running, tracing, truncateInputs, connj; } Snap;
static Snap snap(uint32_t k, int j) {
  Snap s = { pc, areg, breg, oreg, lastPC, memory[k], cycles, maxCycles, exitCode, running, tracing, truncateInputs, connected[j] };
  return s;
}
void h_init_determined(void) {
  /* the binary: header word + image words (+ possibly more bytes), same for both runs */
  /* header word h (image fits the simulated memory), `present` words actually in the file after the header: the file may
     be cut short (present < h) or carry debug tables (present > h) */
  size_t hdr = nondet_size(); __CPROVER_assume(hdr <= MEMORY_SIZE_WORDS);
  size_t present = nondet_size(); __CPROVER_assume(present <= MEMORY_SIZE_WORDS + 250000);
  size_t words = hdr < present ? hdr : present;          /* what read() delivers into memory */
  g_file_words = words; g_file_header = (uint32_t)hdr;
  g_file_image = malloc((words ? words : 1) * sizeof(uint32_t)); __CPROVER_assume(g_file_image != NULL);
  g_file_size = 4 + 4 * present + (nondet_size() & 3);
  size_t cex_maxcycles = nondet_size();
  uint32_t cex_k = nondet_u32(); __CPROVER_assume(cex_k < MEMORY_SIZE_WORDS);
  g_zero_k = cex_k;
  int j = nondet_int(); __CPROVER_assume(j >= 0 && j < 8);
  /* run A */
  havoc_host(cex_maxcycles);
  uint32_t cex_dirty = memory[cex_k]; int cex_exit0 = exitCode;
  Processor_ctor(cex_maxcycles); HexSimIO_ctor(); load_image();
  Snap A = snap(cex_k, j);
  /* run B: a different host state */
  havoc_host(cex_maxcycles);
  Processor_ctor(cex_maxcycles); HexSimIO_ctor(); load_image();
  Snap B = snap(cex_k, j);
  __CPROVER_assert(A.pc == B.pc && A.areg == B.areg && A.breg == B.breg && A.oreg == B.oreg, "C12: registers after construction+load do not depend on the host state");
  __CPROVER_assert(A.memk == B.memk, "C12: memory after construction+load does not depend on the host state");
  __CPROVER_assert(A.memk == (cex_k < words ? g_file_image[cex_k] : 0u), "C12: image words are loaded and memory not covered by the image reads as zero");
  __CPROVER_assert(A.exitCode == B.exitCode, "C12: the status returned when --max-cycles cuts the run short does not depend on the host state");
  __CPROVER_assert(A.running == B.running && A.tracing == B.tracing && A.truncateInputs == B.truncateInputs && A.cycles == B.cycles && A.maxCycles == B.maxCycles && A.lastPC == B.lastPC,
                   "C12: control state after construction+load does not depend on the host state");
  __CPROVER_assert(A.connj == B.connj, "C12: stream-file state after construction does not depend on the host state");
  __CPROVER_assert(A.running && A.pc == 0 && A.oreg == 0 && A.maxCycles == cex_maxcycles, "C12: run starts at address 0 with a clear operand register and the requested cycle limit");
#ifdef CANARY
  __CPROVER_assert(0, "canary: harness end reachable");
#endif
}

/* trace()/traceSyscall(): frame = ghost text log only.  Entered from the state run() is in when it calls them. */
void h_trace_frame(void) {
  havoc_state();
  isa_state s = { pc, areg, breg, oreg, true, 0 };
  isa_write w; isa_event ev; isa_status st;
  isa_step(&s, memory, 0, &w, &ev, &st);
  __CPROVER_assume(st.defined && st.in_range);
  /* head of run()'s loop body, as in the ISA: fetch, advance, accumulate */
  instr = (memory[pc >> 2] >> ((pc & 0x3) << 3)) & 0xFF;
  lastPC = pc; pc = pc + 1; oreg = oreg | (instr & 0xF);
  instrEnum = (Instr)((instr >> 4) & 0xF);
  trace(instr, instrEnum);
}
void h_traceSyscall_frame(void) {
  havoc_state();
  __CPROVER_assume(areg <= 2);
  uint32_t sp = memory[1];
  __CPROVER_assume(sp + 3 > sp && sp + 3 < MEMORY_SIZE_WORDS);
  traceSyscall();
}
#endif
"""


def build_unit(chk):
    text = simunit.unit_text(chk, with_trace=True, with_load=True, ctor=True)
    text = text.replace("static void trace(uint32_t instr, Instr instrEnum) {",
                        "static void trace(uint32_t instr, Instr instrEnum)\n__CPROVER_requires(1)\n__CPROVER_assigns(g_fmt_calls, g_first_nargs, g_cur, g_nargs_cur, g_lookup_idx, __CPROVER_object_whole(g_first_args))\n{", 1)
    text = text.replace("static void traceSyscall(void) {",
                        "static void traceSyscall(void)\n__CPROVER_requires(1)\n__CPROVER_assigns(g_fmt_calls, g_first_nargs, g_cur, g_nargs_cur, __CPROVER_object_whole(g_first_args))\n{", 1)
    if text.count("__CPROVER_object_whole(g_first_args)") != 2:
        raise hv.ExtractionError("could not splice frame contracts onto trace/traceSyscall")
    mz = ("#ifdef HEX_CBMC\n#define MEM_ZERO() __CPROVER_array_set(memory, 0)\n"
          "/* a clear of the first n bytes: the whole array when n covers it; otherwise (a clear that is too short) it is modelled\n"
          "   exactly at the ghost word the harness observes, which is all the obligations look at */\n"
          "static uint32_t g_zero_k;\n"
          "#define MEM_ZERO_BYTES(n) do { if ((size_t)(n) >= 4 * (size_t)MEMORY_SIZE_WORDS) __CPROVER_array_set(memory, 0); else if (4 * (size_t)g_zero_k + 4 <= (size_t)(n)) memory[g_zero_k] = 0; } while (0)\n"
          "#else\n#define MEM_ZERO() memset(memory, 0, 4 * MEMORY_SIZE_WORDS)\n#define MEM_ZERO_BYTES(n) memset(memory, 0, (n))\n#endif\n")
    text = text.replace("static void Processor_ctor(", mz + "static void Processor_ctor(", 1)
    return chk.write("c12_unit.c", "#include <string.h>\n" + text + simunit.HARNESS + C12_HARNESS)


def native(chk):
    exe = os.path.join(chk.out, "c12_native")
    hv.build_native(os.path.join(hv.VERIF, "native", "c12_native.cpp"), exe, extra=[os.path.join(hv.REPO, "hex.cpp")])
    return exe


def native_stage(chk):
    """real Processor objects constructed over dirty and clean storage / heaps (needs no extracted text)"""
    exe = native(chk)
    rc, o, e, secs = hv.run([exe, "replay"], timeout=300)
    try:
        nat = json.loads(o)
    except Exception:
        raise hv.Infra("native determinism stage failed: " + (o + e)[-800:])
    nat["stage"] = ("real hexsim::Processor built over dirty and over clean storage (placement new) and dirty/clean heaps (operator new pre-fill), same image: "
                    "unwritten word read, cycle-limited status, binary cut short")
    chk.native.append(nat)
    return nat


def cli_stage(chk):
    """the hexsim EXECUTABLE (hexsim.cpp main) under different host environments (heap perturbation, environment size, eager
    binding -- they change what the stack and heap hold when the Processor is built): output and status of (1) a program exiting
    with a word it never wrote at the top of memory, (2) an endless loop under --max-cycles, (3) a stdin echo with and without -t"""
    import subprocess
    exe = os.path.join(chk.out, "hexsim_cli")
    hv.build_native(os.path.join(hv.REPO, "hexsim.cpp"), exe, extra=[os.path.join(hv.REPO, "hex.cpp")], opt="-O1", hooks=False)
    d = os.path.join(chk.out, "scratch", "cli")
    os.makedirs(d, exist_ok=True)
    def image(name, code):
        code = bytes(code) + b"\0" * (-len(code) % 4)
        open(os.path.join(d, name), "wb").write((len(code) // 4).to_bytes(4, "little") + code)
    # (1) sp = 199990: exit(mem[199992]), a word near the top of memory that nothing wrote
    image("top.bin", [0x97, 0, 0, 0] + list((199990).to_bytes(4, "little")) + [0x30, 0xD3])
    # (2) BR -2 forever
    image("loop.bin", [0xFF, 0x9E])
    # (3) read a byte from stdin, exit with it
    image("echo.bin", [0x97, 0, 0, 0, 100, 0, 0, 0, 0x11, 0x30, 0x82, 0x32, 0xD3, 0x01, 0x61, 0x11, 0x82, 0x30, 0xD3])
    envs = [{}, {"MALLOC_PERTURB_": "165"}, {"LD_BIND_NOW": "1"}, {"HEX_PAD": "x" * 60000}, {"MALLOC_PERTURB_": "90", "LD_BIND_NOW": "1", "HEX_PAD": "y" * 9000}]
    def run(args, inp=b""):
        res = []
        for e in envs:
            env = dict(os.environ); env.update(e)
            try:
                r = subprocess.run([exe] + args, cwd=d, input=inp, capture_output=True, timeout=60, env=env)
                res.append((r.returncode, r.stdout if "-t" not in args else b""))
            except subprocess.TimeoutExpired:
                res.append((-9, b"timeout"))
        return res
    why = ""
    r1 = run(["top.bin"])
    r2 = run(["loop.bin", "--max-cycles", "50"])
    r3 = run(["echo.bin"], b"Z")
    r3t = run(["echo.bin", "-t"], b"Z")
    if len(set(r1)) != 1 or r1[0][0] != 0:
        why = "exit status of a program returning a never-written word differs with the host environment or is not 0: %s" % [x[0] for x in r1]
    elif len(set(r2)) != 1 or r2[0][0] < 0:
        why = "status of a run cut short by --max-cycles differs with the host environment (or the run does not end): %s" % [x[0] for x in r2]
    elif len(set(r3)) != 1 or r3[0][0] != ord("Z"):
        why = "status of a program exiting with its input byte: %s" % [x[0] for x in r3]
    elif [x[0] for x in r3t] != [x[0] for x in r3]:
        why = "-t changes the exit status: %s vs %s" % ([x[0] for x in r3t], [x[0] for x in r3])
    rec = {"stage": "hexsim executable under 5 host environments (MALLOC_PERTURB_, LD_BIND_NOW, environment size): never-written word at the top of memory, cycle-limited endless loop, stdin echo with and without -t", "ok": not why, "why": why}
    chk.native.append(rec)
    if why:
        p = chk.replay_path("native-cli")
        json.dump({"property": PID, "obligation": "hexsim executable under different host environments", "what": why, "how": "programs in %s; environments %s" % (d, envs)}, open(p, "w"), indent=1)
        chk.add_violation("native-cli", p, "hexsim executable: " + why, True)


def native_only(chk):
    cli_stage(chk)
    nat = native_stage(chk)
    if nat.get("ok") is False:
        p = chk.replay_path("native")
        json.dump({"property": PID, "obligation": "native determinism stage", "real_code_result": nat, "how": "./check C12 --replay x"}, open(p, "w"), indent=1)
        chk.add_violation("native-determinism", p, nat.get("why", ""), True)


def main(chk, replay_file):
    tier = chk.tier
    unit = build_unit(chk)
    chk.functions = ["hexsim::Processor::Processor (initialiser list)", "hexsim::Processor::load (header arithmetic, copy extent)",
                     "hexsim::Processor::run (loop body)", "hexsim::Processor::syscall", "hexsim::Processor::trace", "hexsim::Processor::traceSyscall",
                     "hex::HexSimIO::HexSimIO", "hex::HexSimIO::output", "hex::HexSimIO::input"]
    chk.trusted = ["CBMC 6.11.0 + MiniSat", "extractor rules in lib/simx.py, prelude/stubs in lib/simunit.py", "spec/isa.h isa_step",
                   "std::ifstream::read delivers the file's bytes in order (FILE_* stubs); std::array value-initialisation zeroes every element",
                   "boost::format rendering and ostream<< only produce text (EV_FMT/EV_ARG keep argument evaluation, drop rendering)",
                   "lookupSymbol replaced by its contract here (enforced in C15)"]
    chk.assumptions = [
        "the image announced by the header fits the 200000-word memory (load() performs no check; larger headers overflow the array: outside the property's 'all images' as produced by the toolchain); the file may be shorter than the header announces (read() then delivers fewer words, the rest of memory stays zero) or longer (debug tables)",
        "whole-run determinism = induction over steps: equal determined states + equal inputs give equal successor states (C02 step contract is a function of state and input)",
        "instr/instrEnum need no initialisation: the step harness havocs them and proves the post-state independent of them",
        "std::map debugInfoMap lookup returns the entry's own offset (unique symbol names)",
    ]
    if replay_file:
        exe = native(chk)
        rc, o, e, _ = hv.run([exe, "replay"], timeout=120)
        print(o.strip())
        return 0 if rc == 0 else 1
    J = hv.Job
    jobs = [
        J("init.determined", unit, "h_init_determined", functions=["Processor ctor", "HexSimIO ctor", "load"], note="two arbitrary host states, any image length up to 200000 words"),
        J("step.traced", unit, "h_step", defines=["TRACING_INIT=true"], replace=["lookupSymbol"], stop_on_fail=True, functions=["run() loop body", "trace", "traceSyscall", "syscall"],
          note="C02 step contract with tracing on"),
        J("step.untraced", unit, "h_step", defines=["TRACING_INIT=false"], replace=["lookupSymbol"], stop_on_fail=True, functions=["run() loop body", "syscall"],
          note="the same step contract with tracing off: in particular the cycle counter advances once per instruction in both modes, so --max-cycles cuts a run short at the same point"),
        J("trace.frame", unit, "h_trace_frame", enforce="trace", replace=["lookupSymbol"], functions=["trace"], role="aux"),
        J("traceSyscall.frame", unit, "h_traceSyscall_frame", enforce="traceSyscall", functions=["traceSyscall"], role="aux"),
        J("run_loop.contract", unit, "h_run_loop", functions=["run() loop condition and return"]),
        J("init.canary", unit, "h_init_determined", defines=["CANARY"], kind="canary", checks=[]),
        J("step.traced.canary", unit, "h_step", defines=["TRACING_INIT=true", "CANARY"], replace=["lookupSymbol"], kind="canary", checks=[]),
    ]
    if tier == "thorough":
        jobs.append(J("init.determined@cvc5", unit, "h_init_determined", solver=["--cvc5"], timeout=3000, note="second back end"))
    chk.jobs = jobs
    hv.run_jobs(jobs, chk.out)
    nat = native_stage(chk)
    cli_stage(chk)
    for j in jobs:
        r = j.result
        if j.kind != "proof" or r["status"] != "failed" or j.role != "property":
            continue
        for f in r["failed"]:
            name = j.name + ":" + f["name"]
            p = chk.replay_path(f["name"])
            confirmed = False
            if j.name.startswith("init") and nat.get("ok") is False:
                confirmed = True
            if j.name.startswith("step.") and nat.get("ok") is False and ("cycle" in nat.get("why", "") or "tracing" in nat.get("why", "")):
                confirmed = True   # the native stage's traced/untraced and cycle-limited runs fail on the real simulator
            json.dump({"property": PID, "obligation": name, "desc": f["desc"], "verifier_counterexample": f.get("cex"), "real_code_result": nat,
                       "how": "./check C12 --replay x"}, open(p, "w"), indent=1)
            chk.add_violation(name, p, f["desc"] + ("; real hexsim: " + nat.get("why", "") if confirmed else ""), confirmed)
    if not chk.violations and nat.get("ok") is False:
        p = chk.replay_path("native")
        json.dump({"property": PID, "obligation": "native determinism stage", "real_code_result": nat}, open(p, "w"), indent=1)
        chk.add_violation("native-determinism", p, nat.get("why", ""), True)
    for j in jobs:
        r = j.result
        if j.kind == "proof" and r["status"] == "failed" and j.role == "aux":
            for f in r["failed"]:
                chk.warnings.append("%s:%s %s" % (j.name, f["name"], f["desc"]))
    return chk.finish()

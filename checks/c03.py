"""C03 -- the Verilog processor is cycle-for-cycle equivalent to the ISA.

Code under contract: the C++ Verilator 5.006 generates from verilog/{hex_pkg,hex,processor,memory}.sv (what hextb runs),
converted to C by lib/vl2c.py on every run, entered through the generated eval_step (incl. static/initial/settle code).
Contract of hex_clock() (= rising-edge eval + falling-edge eval, as in hextb's loop): from every settled state with reset
low, the reachable-state invariant (oreg_q & 0xF) == 0 (itself re-established, so inductive), in-range addresses and a
defined instruction: pc/areg/breg/oreg, the stored word and the memory frame (ghost index) equal isa_step; nothing changes
on the falling edge (one instruction per clock); the system-call request is raised exactly for SVC with o_syscall == areg & 3;
the post-state is settled again.  Base case (reset gives the ISA start state) is shared with C13.
"""
import json
import os

import hv
import vl2c

PID = "C03"
SOURCES = ["verilog/hex_pkg.sv", "verilog/hex.sv", "verilog/processor.sv", "verilog/memory.sv"]

HARNESS = r"""
#include <stdlib.h>
#include "isa.h"
#ifdef HEX_CBMC
void vl_fatal(const char *msg) { __CPROVER_assert(0, "Verilator VL_FATAL (region did not converge) unreachable"); }
uint32_t nondet_u32(void); uint64_t nondet_u64(void); size_t nondet_size(void); int nondet_int(void);
IData vl_rand_reset_i(int w) { IData v = nondet_u32(); return w >= 32 ? v : (v & ((1u << w) - 1u)); }
QData vl_rand_reset_q(int w) { QData v = nondet_u64(); return w >= 64 ? v : (v & ((1ull << w) - 1ull)); }

#define RTL_WORDS Vhex_memory_memory_q_DEPTH
static Vhex__Syms S;
#define P (&S.TOP__hex__u_processor)
#define M (&S.TOP__hex__u_memory)

static void power_on(void) {
  /* every Verilated field arbitrary within its declared width: the generated _ctor_var_reset functions with
     VL_RAND_RESET_I = nondet; the memory array is a fresh object of symbolic size (arbitrary contents) */
  size_t n = nondet_size(); __CPROVER_assume(n >= RTL_WORDS && n <= 2 * (size_t)RTL_WORDS);
  S.TOP__hex__u_memory.memory_q = malloc(n * 4); __CPROVER_assume(S.TOP__hex__u_memory.memory_q != NULL);
  S.TOP.vlSymsp = &S; S.TOP__hex.vlSymsp = &S; S.TOP__hex__u_memory.vlSymsp = &S; S.TOP__hex__u_processor.vlSymsp = &S;
  S.TOP.hex = &S.TOP__hex;
  Vhex___024root___ctor_var_reset(&S.TOP); Vhex_hex___ctor_var_reset(&S.TOP__hex);
  Vhex_memory___ctor_var_reset(&S.TOP__hex__u_memory); Vhex_processor___ctor_var_reset(&S.TOP__hex__u_processor);
  S.TOP.__VactContinue = vl_rand_reset_i(1); S.TOP.__VstlIterCount = nondet_u32(); S.TOP.__VicoIterCount = nondet_u32(); S.TOP.__VactIterCount = nondet_u32();
#define VL_E_(k) (nondet_int() & 1)
  VL_TV_ALL(S.TOP.__VstlTriggered, VL_E_); VL_TV_ALL(S.TOP.__VicoTriggered, VL_E_); VL_TV_ALL(S.TOP.__VactTriggered, VL_E_); VL_TV_ALL(S.TOP.__VnbaTriggered, VL_E_);
#undef VL_E_
  S.__Vm_didInit = false;
}

typedef struct { CData o_f_data; IData o_d_addr, o_d_data; CData o_syscall_valid, o_syscall; } Nets;
static Nets nets(void) { Nets r = { M->__PVT__o_f_data, P->__PVT__o_d_addr, M->__PVT__o_d_data, S.TOP.o_syscall_valid, S.TOP.o_syscall }; return r; }

/* one clock of hextb's loop, after reset: rising edge eval, falling edge eval */
void h_clock(void) {
  power_on();
  /* a settled state with clock and reset low: the first eval_step runs the generated static/initial/settle code */
  S.TOP.i_clk = 0; S.TOP.i_rst = 0;
  Vhex_eval_step(&S);
  uint32_t cex_pc = P->pc_q, cex_areg = P->__PVT__areg_q, cex_breg = P->__PVT__breg_q, cex_oreg = P->__PVT__oreg_q;
  /* reachable-state invariant and the range both implementations provide */
  __CPROVER_assume((cex_oreg & 0xFu) == 0);
  __CPROVER_assume(cex_pc < 4u * ISA_MEM_WORDS);
  isa_state s = { cex_pc, cex_areg, cex_breg, cex_oreg, true, 0 };
  isa_write w; isa_event ev; isa_status st;
  isa_step(&s, M->memory_q, 0, &w, &ev, &st);
  uint32_t cex_word = M->memory_q[cex_pc >> 2];
  uint32_t cex_byte = (cex_word >> ((cex_pc & 3) << 3)) & 0xFF;
  bool is_svc = ((cex_byte >> 4) == I_OPR) && ((cex_oreg | (cex_byte & 0xF)) == O_SVC);
  if (is_svc) {
    /* the processor itself treats SVC as a no-op that raises the request; the call is serviced by the testbench (C06) */
    st.defined = true; st.in_range = true; w.wr = false; s.running = true;
  }
  __CPROVER_assume(st.defined && st.in_range);
  __CPROVER_assume(s.pc < 4u * ISA_MEM_WORDS && s.areg == s.areg);
  __CPROVER_assume(((cex_byte >> 4) != I_LDAP) || s.areg < 4u * ISA_MEM_WORDS); /* LDAP result inside the byte address range */
  uint32_t cex_ea = ((cex_byte >> 4) == I_LDAI) ? cex_areg + (cex_oreg | (cex_byte & 0xF)) : ((cex_byte >> 4) == I_LDBI || (cex_byte >> 4) == I_STAI) ? cex_breg + (cex_oreg | (cex_byte & 0xF)) : (cex_oreg | (cex_byte & 0xF));
  uint32_t cex_data = M->memory_q[cex_ea < ISA_MEM_WORDS ? cex_ea : 0];
  uint32_t k = nondet_u32(); __CPROVER_assume(k < RTL_WORDS);
  uint32_t old_k = M->memory_q[k];
  /* request lines in the settled pre-state: what hextb samples after the previous rising edge */
  __CPROVER_assert((S.TOP.o_syscall_valid != 0) == is_svc, "C03: system-call request raised exactly when the fetched instruction is SVC");
  __CPROVER_assert(!is_svc || S.TOP.o_syscall == (cex_areg & 3u), "C03: call number is taken from areg");
  __CPROVER_assert(M->__PVT__o_f_data == cex_byte, "C03: byte-lane fetch from little-endian word memory");

  S.TOP.i_clk = 1; Vhex_eval_step(&S);          /* rising edge */
  __CPROVER_assert(P->pc_q == s.pc, "C03: pc after the clock equals the ISA successor");
  __CPROVER_assert(P->__PVT__areg_q == s.areg, "C03: areg after the clock equals the ISA successor");
  __CPROVER_assert(P->__PVT__breg_q == s.breg, "C03: breg after the clock equals the ISA successor");
  __CPROVER_assert(P->__PVT__oreg_q == s.oreg, "C03: oreg after the clock equals the ISA successor");
  __CPROVER_assert(M->memory_q[k] == ((w.wr && w.waddr == k) ? w.wdata : old_k), "C03: memory word written equals the ISA's, all other words unchanged");
  __CPROVER_assert((P->__PVT__oreg_q & 0xFu) == 0, "C03: invariant (oreg_q & 0xF) == 0 re-established");
  uint32_t pc1 = P->pc_q, a1 = P->__PVT__areg_q, b1 = P->__PVT__breg_q, o1 = P->__PVT__oreg_q, m1 = M->memory_q[k];
  Nets n1 = nets();

  S.TOP.i_clk = 0; Vhex_eval_step(&S);          /* falling edge */
  __CPROVER_assert(P->pc_q == pc1 && P->__PVT__areg_q == a1 && P->__PVT__breg_q == b1 && P->__PVT__oreg_q == o1 && M->memory_q[k] == m1,
                   "C03: exactly one instruction retired per clock (nothing changes on the falling edge)");
  Nets n2 = nets();
  __CPROVER_assert(n1.o_f_data == n2.o_f_data && n1.o_d_addr == n2.o_d_addr && n1.o_d_data == n2.o_d_data && n1.o_syscall_valid == n2.o_syscall_valid && n1.o_syscall == n2.o_syscall,
                   "C03: nets settled after the rising edge");
  /* the post-state is a settled state again: re-running the generated settle code changes nothing */
  Vhex___024root___eval_settle(&S.TOP);
  Nets n3 = nets();
  __CPROVER_assert(n3.o_f_data == n2.o_f_data && n3.o_d_addr == n2.o_d_addr && n3.o_d_data == n2.o_d_data && n3.o_syscall_valid == n2.o_syscall_valid && n3.o_syscall == n2.o_syscall,
                   "C03: post-state is settled (inductive)");
  __CPROVER_assert(S.TOP.i_rst == 0 && S.TOP.__Vtrigrprev__TOP__i_clk == 0 && S.TOP.__Vtrigrprev__TOP__i_rst == 0, "C03: edge history consistent for the next clock");
#ifdef CANARY
  __CPROVER_assert(0, "canary: harness end reachable");
#endif
}

/* base case ("started from reset"): from EVERY power-on state, one rising clock edge with reset asserted -- and already
   the assertion of reset itself, the reset being asynchronous -- puts pc, areg, breg, oreg into the state the
   instruction-set simulator's constructor establishes (SIM_INIT_*, read from hexsim.hpp on every run); releasing reset with
   the clock low changes nothing, so the first clock after reset executes the instruction at the simulator's start address
   from the simulator's start state (h_clock then applies). */
void h_reset(void) {
  power_on();
  uint32_t cex_pc = P->pc_q, cex_areg = P->__PVT__areg_q, cex_breg = P->__PVT__breg_q, cex_oreg = P->__PVT__oreg_q;
  uint32_t k = nondet_u32(); __CPROVER_assume(k < RTL_WORDS);
  S.TOP.i_clk = 0; S.TOP.i_rst = 1; Vhex_eval_step(&S);      /* reset asserted, clock low (hextb's prologue) */
  uint32_t old_k = M->memory_q[k];
  S.TOP.i_clk = 1; Vhex_eval_step(&S);                       /* a rising edge under reset */
  __CPROVER_assert(P->pc_q == SIM_INIT_pc && P->__PVT__areg_q == SIM_INIT_areg && P->__PVT__breg_q == SIM_INIT_breg && P->__PVT__oreg_q == SIM_INIT_oreg,
                   "C03: reset puts pc, areg, breg and oreg into the simulator's start state");
  __CPROVER_assert(M->memory_q[k] == old_k, "C03: no memory word changes on a clock edge under reset");
  S.TOP.i_clk = 0; Vhex_eval_step(&S);
  S.TOP.i_rst = 0; Vhex_eval_step(&S);                       /* reset released with the clock low */
  __CPROVER_assert(P->pc_q == SIM_INIT_pc && P->__PVT__areg_q == SIM_INIT_areg && P->__PVT__breg_q == SIM_INIT_breg && P->__PVT__oreg_q == SIM_INIT_oreg && M->memory_q[k] == old_k,
                   "C03: releasing reset keeps the start state");
  __CPROVER_assert(M->__PVT__o_f_data == ((M->memory_q[SIM_INIT_pc >> 2] >> ((SIM_INIT_pc & 3) << 3)) & 0xFF), "C03: after reset the instruction at the simulator's start address is fetched");
#ifdef CANARY
  __CPROVER_assert(0, "canary: harness end reachable");
#endif
}

void h_cover(void) {
  power_on();
  S.TOP.i_clk = 0; S.TOP.i_rst = 0;
  Vhex_eval_step(&S);
  uint32_t pc = P->pc_q, o = P->__PVT__oreg_q, a = P->__PVT__areg_q;
  __CPROVER_assume((o & 0xFu) == 0 && pc < 4u * ISA_MEM_WORDS);
  uint32_t byte = (M->memory_q[pc >> 2] >> ((pc & 3) << 3)) & 0xFF;
  uint32_t op = byte >> 4;
  S.TOP.i_clk = 1; Vhex_eval_step(&S);
  __CPROVER_cover(op == 0); __CPROVER_cover(op == 2); __CPROVER_cover(op == 5); __CPROVER_cover(op == 6); __CPROVER_cover(op == 8);
  __CPROVER_cover(op == 9 && P->pc_q < pc); __CPROVER_cover(op == 10 && a == 0); __CPROVER_cover(op == 11 && (int)a < 0 && P->pc_q != pc + 1);
  __CPROVER_cover(op == 13 && (byte & 0xF) == 0); __CPROVER_cover(op == 13 && (byte & 0xF) == 3 && S.TOP.o_syscall_valid);
  __CPROVER_cover(op == 14 && o != 0); __CPROVER_cover(op == 15); __CPROVER_cover(pc == 4u * ISA_MEM_WORDS - 1);
}
#endif
"""


def build_unit(chk):
    text, info = vl2c.verilate(SOURCES, "hex", "Vhex", chk.out, chk.manifest, extra_args=["--trace"])
    pre = "#define VL_IDX(e, n) vl_idx((e), (n))\n#include <stdint.h>\nstatic inline uint32_t vl_idx(uint32_t e, uint32_t n) { __CPROVER_assert(e < n, \"RTL memory index below MEM_DEPTH\"); return e; }\n"
    # the simulator's start state: the constructor's initialisers of pc, areg, breg, oreg (hexsim.hpp)
    import simx
    items = dict(simx.ctor_items(chk.manifest))
    init = ""
    for r in ("pc", "areg", "breg", "oreg"):
        v = items.get(r)
        if v is None or not v.strip().isdigit():
            raise hv.ExtractionError("hexsim constructor: initial value of %s not a literal (%r)" % (r, v))
        init += "#define SIM_INIT_%s %su\n" % (r, v.strip())
    return chk.write("c03_unit.c", pre + text + "\n" + init + HARNESS), info


def native(chk):
    """natively Verilated model (same generator options as the CMake build) + replay harness"""
    mdir = os.path.join(chk.out, "vl_native")
    os.makedirs(mdir, exist_ok=True)
    exe = os.path.join(mdir, "Vhexn")
    srcs = [os.path.join(hv.REPO, s) for s in SOURCES]
    cmd = ["verilator", "--cc", "--exe", "--build", "-j", "8", "--top-module", "hex", "--prefix", "Vhexn", "--trace", "-Wno-fatal", "-Wno-lint",
           "-CFLAGS", "-O1 -I%s -I%s" % (os.path.join(hv.VERIF, "spec"), hv.REPO), "--Mdir", mdir, "-o", "Vhexn"] + srcs + [os.path.join(hv.VERIF, "native", "c03_native.cpp")]
    rc, o, e, secs = hv.run(cmd, timeout=900)
    if rc != 0:
        raise hv.Infra("native verilator build failed: " + (e or o)[-2500:])
    return exe


def replay_state(exe, st):
    if st.get("reset"):
        rc, o, e, _ = hv.run([exe, "reset"] + [str(st[k]) for k in ("pc", "areg", "breg", "oreg")], timeout=120)
        try:
            return json.loads(o)
        except Exception:
            return {"ok": None, "error": (o + e)[-600:]}
    rc, o, e, _ = hv.run([exe, "replay"] + [str(st[k]) for k in ("pc", "areg", "breg", "oreg", "word", "ea", "data")], timeout=120)
    try:
        return json.loads(o)
    except Exception:
        return {"ok": None, "error": (o + e)[-600:]}


def main(chk, replay_file):
    tier = chk.tier
    unit, info = build_unit(chk)
    chk.functions = ["Verilator-generated C for verilog/hex.sv, processor.sv, memory.sv: eval_step, eval_initial, eval_settle, eval (ico/act/nba regions), all sequent functions"]
    chk.trusted = ["CBMC 6.11.0 + MiniSat", "Verilator 5.006 translation and scheduling are the semantics of the RTL (it is what hextb runs)",
                   "lib/vl2c.py rule list and its VL_* helper prelude (copied from verilated_funcs.h semantics)", "spec/isa.h isa_step"]
    chk.assumptions = [
        "reachable-state invariant (oreg_q & 0xF) == 0 assumed for the pre-state and proved for the post-state (inductive); base case = reset state (C13)",
        "range both implementations provide: pc, next pc, LDAP result below 800000; effective word address below 200000; defined instruction bytes",
        "SVC: the processor only raises the request and advances; servicing is hextb's shim (C06)",
        "Verilator convergence loops unwound 4 times with unwinding assertions; VL_FATAL asserted unreachable",
        "whole-run claim = induction over clocks (paper glue)",
    ]
    if replay_file:
        exe = native(chk)
        d = json.load(open(replay_file))
        r = replay_state(exe, d["state"])
        print(json.dumps(r))
        return 0 if r.get("ok") else 1
    J = hv.Job
    jobs = [
        J("hex_clock.contract", unit, "h_clock", unwind=4, functions=["Vhex_eval_step and callees"], note="all register values x all memory contents x all defined bytes, within the stated range"),
        J("reset.contract", unit, "h_reset", unwind=4, functions=["Vhex_eval_step and callees (reset)"], note="base case: every power-on state -> the simulator's constructor state"),
        J("reset.canary", unit, "h_reset", unwind=4, defines=["CANARY"], kind="canary", checks=[]),
        J("hex_clock.canary", unit, "h_clock", unwind=4, defines=["CANARY"], kind="canary", checks=[]),
        J("hex_clock.cover", unit, "h_cover", unwind=4, kind="cover", cover=True, checks=[]),
    ]
    if tier == "thorough":
        jobs.append(J("hex_clock.contract@kissat", unit, "h_clock", unwind=4, solver=["--external-sat-solver", "kissat"], stop_on_fail=True, timeout=3000, note="second back end: kissat (CBMC's SMT2 conversion aborts with map::at on the Verilator units, so cvc5/z3 are unusable here)"))
    chk.jobs = jobs
    hv.run_jobs(jobs, chk.out)
    exe = native(chk)
    n = 100000 if tier == "quick" else 5000000
    rc, o, e, secs = hv.run([exe, "sweep", str(chk.seed), str(n)], timeout=3000)
    try:
        sw = json.loads(o)
    except Exception:
        raise hv.Infra("native RTL sweep failed: " + (o + e)[-800:])
    sw["stage"] = "natively Verilated model (same generator options as the CMake build): one clock vs isa_step on seeded states (byte grid x corner/random registers)"
    sw["secs"] = round(secs, 1)
    chk.native.append(sw)
    if sw.get("mismatches", 0):
        st = sw["first"]
        r = replay_state(exe, st)
        p = chk.replay_path("native-%s" % st["pc"])
        json.dump({"property": PID, "obligation": "native sweep", "state": st, "real_code_result": r}, open(p, "w"), indent=1)
        chk.add_violation("native-sweep", p, "Verilated RTL differs from the ISA: %s" % r.get("why"), True)
    for j in jobs:
        r = j.result
        if j.kind != "proof" or r["status"] != "failed":
            continue
        for f in r["failed"]:
            cex = f.get("cex", {})
            name = j.name + ":" + f["name"]
            st = None
            try:
                st = {"pc": hv.parse_c_int(cex["cex_pc"]), "areg": hv.parse_c_int(cex["cex_areg"]), "breg": hv.parse_c_int(cex["cex_breg"]),
                      "oreg": hv.parse_c_int(cex["cex_oreg"]), "word": hv.parse_c_int(cex["cex_word"]), "ea": hv.parse_c_int(cex.get("cex_ea", "0")),
                      "data": hv.parse_c_int(cex.get("cex_data", "0"))}
            except (KeyError, ValueError):
                pass
            if j.name.startswith("reset."):
                try:
                    st = {"reset": True, "pc": hv.parse_c_int(cex["cex_pc"]), "areg": hv.parse_c_int(cex["cex_areg"]), "breg": hv.parse_c_int(cex["cex_breg"]), "oreg": hv.parse_c_int(cex["cex_oreg"])}
                except (KeyError, ValueError):
                    st = {"reset": True, "pc": 0x12345, "areg": 0xDEADBEEF, "breg": 0xCAFEF00D, "oreg": 0x70}
            p = chk.replay_path(f["name"])
            if st is not None:
                rr = replay_state(exe, st)
                if rr.get("ok") is False:
                    json.dump({"property": PID, "obligation": name, "desc": f["desc"], "state": st, "real_code_result": rr, "how": "./check C03 --replay " + p}, open(p, "w"), indent=1)
                    chk.add_violation(name, p, "%s; Verilated RTL: %s" % (f["desc"], rr.get("why")), True)
                    continue
            json.dump({"property": PID, "obligation": name, "desc": f["desc"], "verifier_counterexample": cex, "replay_attempt": st}, open(p, "w"), indent=1)
            chk.add_violation(name, p, f["desc"], False)
    return chk.finish()

"""C15 -- trace and debug symbols report what is actually executing.

Mechanisms under contract (the call-sequence corollary rests on compiler correctness, C01, and is NOT claimed):
  trace.tuple        run()'s loop body with tracing on (real trace()): the first values of the trace line are
                     (instructions executed before this one, byte address fetched, [symbol, pc - symbol offset],
                      mnemonic of the fetched opcode, fetched byte & 0xF) and the instruction then executed is that one
                     (the step equals isa_step: C12 step.traced, re-proved here)
  lookupSymbol       function + loop contract over a table of symbolic length: below the first entry -> none; else an entry
                     with offset <= pc and pc < next offset (or last); no out-of-bounds read of debugInfo[i+1]
  last-entry lemma   with non-decreasing offsets that entry is the LAST one with offset <= pc (ghost index, sortedness
                     instantiated at the two indices used)
  emit symbols       (C05's emit.step, run here too) one entry per FUNC/PROC directive, in order, with the offset of the next
                     emitted byte = the label's address
  table round trip   emitDebugInfo / load() symbol-table reader as an encode/decode pair over a ghost word stream, loop
                     bodies extracted, invariants as inductive-step obligations (symbolic table length, ghost index)
"""
import json
import os
import re

import hv
import simunit
import simx
import c05

PID = "C15"

C15_HARNESS = r"""
#ifdef HEX_CBMC
/* the trace line of one step */
void h_trace_tuple(void) {
  havoc_state();
  g_oracle_in = 0;
  __CPROVER_assume(debugInfo_size <= 100000);
  uint32_t pc0 = pc; size_t cycles0 = cycles;
  isa_state s = { pc, areg, breg, oreg, true, 0 };
  isa_write w; isa_event ev; isa_status st;
  isa_step(&s, memory, 0, &w, &ev, &st);
  __CPROVER_assume(st.defined && st.in_range);
  uint32_t byte = (memory[pc0 >> 2] >> ((pc0 & 3) << 3)) & 0xFF;
  bool have_table = debugInfo_size != 0;
  step();
  __CPROVER_assert(g_fmt_calls >= 1, "C15: every traced step prints a line");
  __CPROVER_assert(!g_fmt_truncates, "C15: no column of the trace line is cut short by its format directive (a precision on %s)");
  __CPROVER_assert(g_first_nargs == (have_table ? 6 : 4), "C15: line shape (count, address, [symbol+offset], mnemonic, operand)");
  __CPROVER_assert(g_first_args[0] == (uint64_t)cycles0, "C15: first column is the running instruction count");
  __CPROVER_assert(g_first_args[1] == (uint64_t)pc0, "C15: second column is the byte address of the instruction executed");
  int base = have_table ? 4 : 2;
  __CPROVER_assert(g_first_args[base] == (uint64_t)((byte >> 4) & 0xF), "C15: mnemonic is that of the fetched opcode");
  __CPROVER_assert(g_first_args[base + 1] == (uint64_t)(byte & 0xF), "C15: operand column is the fetched byte's low nibble");
  __CPROVER_assert(pc == s.pc && areg == s.areg && breg == s.breg && oreg == s.oreg, "C15: the instruction executed is the one reported (ISA successor of the reported byte)");
  if (have_table) {
    bool none = pc0 < debugInfo[0].second;
    __CPROVER_assume(g_lookup_idx >= debugInfo_size || debugInfo[g_lookup_idx].first >= 0);   /* modelling convention: name ids are non-negative, -1 = no symbol */
    __CPROVER_assert(none == ((int)g_first_args[2] == -1), "C15: no symbol below the first entry");
    if (!none) {
      __CPROVER_assert(g_lookup_idx < debugInfo_size && (int)g_first_args[2] == debugInfo[g_lookup_idx].first, "C15: symbol column names the entry found by lookupSymbol");
      __CPROVER_assert((uint32_t)g_first_args[3] == pc0 - debugInfo[g_lookup_idx].second, "C15: offset column is pc minus the entry's offset");
      __CPROVER_assert(((uint32_t)g_first_args[3] == 0) == (pc0 == debugInfo[g_lookup_idx].second), "C15: offset 0 exactly at the procedure's entry");
    }
  }
#ifdef CANARY
  __CPROVER_assert(0, "canary: harness end reachable");
#endif
}

void h_lookupSymbol(void) {
  size_t n = nondet_size(); __CPROVER_assume(n >= 1 && n <= 100000);
  debugInfo_size = n; lastPC = nondet_u32();
  lookupSymbol();
}

/* with non-decreasing offsets the entry returned is the last one at or below pc */
void h_lookup_last(void) {
  size_t n = nondet_size(); __CPROVER_assume(n >= 1 && n <= 100000);
  debugInfo_size = n; debugInfo = malloc(n * sizeof(DebugEntry)); __CPROVER_assume(debugInfo != NULL);
  lastPC = nondet_u32();
  const DebugEntry *r = lookupSymbol();
  size_t j = nondet_size(); __CPROVER_assume(j < n);
  if (r != NULL && j > g_lookup_idx) {
    /* sortedness (forall a < b: offset[a] <= offset[b]) instantiated at (idx+1, j) */
    __CPROVER_assume(debugInfo[g_lookup_idx + 1].second <= debugInfo[j].second);
    __CPROVER_assert(lastPC < debugInfo[j].second, "C15: every later entry starts above pc (the entry found is the last at or below pc)");
  }
  if (r == NULL) {
    __CPROVER_assume(debugInfo[0].second <= debugInfo[j].second);
    __CPROVER_assert(lastPC < debugInfo[j].second, "C15: below the first entry no entry is at or below pc");
  }
#ifdef CANARY
  __CPROVER_assert(0, "canary: harness end reachable");
#endif
}
#endif
"""


RT_UNIT = r"""
#include "cprelude.h"
bool verif_thrown;
/* ---- symbol-table round trip: hexasm CodeGen::emitDebugInfo (writer) / hexsim Processor::load (reader) ----
   The file section after the image is modelled as two ghost streams: the string table (names as ids, in order) and the
   word stream [N][pairs...]; ostream::write / ifstream::read append / deliver words in order (stubs). */
typedef struct { int first; unsigned second; } DebugPair;
#define MAXSYM 100000
static DebugPair *table; static size_t table_n;            /* CodeGen::debugInfo */
static int *strfile; static size_t str_n;                  /* names written, in order */
static uint32_t *symfile; static size_t sym_words;         /* words written after the second count */
static uint32_t tableIndex;
#define OUT_STRING(name) do { __CPROVER_assert(str_n < table_n, "string table write in range"); strfile[str_n] = (name); str_n++; } while (0)
#define OUT_U32(v) do { __CPROVER_assert(sym_words < 2 * table_n, "symbol table write in range"); symfile[sym_words] = (v); sym_words++; } while (0)
__EMIT_BODIES__
static size_t rd_pos; static DebugPair *loaded; static size_t loaded_n; static uint32_t numStrings_g;
#define FILE_READ_U32(p) do { __CPROVER_assert(rd_pos < 2 * table_n, "symbol table read in range"); *(p) = symfile[rd_pos]; rd_pos++; } while (0)
static int strings_at(uint32_t i) { __CPROVER_assert(i < numStrings_g, "C15: string index read from the file is inside the string table (std::vector::operator[] is unchecked)"); return strfile[i < numStrings_g ? i : 0]; }
#define STRINGS_AT(i) strings_at(i)
#define DEBUGINFO_PUSH(name, off) do { __CPROVER_assert(loaded_n < table_n, "push in range"); loaded[loaded_n].first = (name); loaded[loaded_n].second = (off); loaded_n++; } while (0)
#define DEBUGMAP_SET(name, off) ((void)0)
__LOAD_BODY__
#ifdef HEX_CBMC
size_t nondet_size(void);
static size_t gi, gg;
static void rt_state(void) {
  table_n = nondet_size(); __CPROVER_assume(table_n >= 1 && table_n <= MAXSYM);
  table = malloc(table_n * sizeof(DebugPair)); strfile = malloc(table_n * sizeof(int)); symfile = malloc(table_n * 8); /* 2 words per symbol; byte-sized form: CBMC 6.11 mis-types `2 * n * sizeof` allocations */ loaded = malloc(table_n * sizeof(DebugPair));
  __CPROVER_assume(table && strfile && symfile && loaded);
  gi = nondet_size(); gg = nondet_size(); __CPROVER_assume(gi < table_n && gg < table_n);
  numStrings_g = (uint32_t)table_n;
}
/* writer, string loop: invariant  str_n == i  and  strfile[g] == table[g].first for g < i */
void h_rt_emit_strings(void) {
  rt_state(); str_n = gi;
  __CPROVER_assume(!(gg < gi) || strfile[gg] == table[gg].first);
  dbg_emit_strings_body(&table[gi]);
  __CPROVER_assert(str_n == gi + 1, "C15 round trip: one name written per symbol");
  __CPROVER_assert(!(gg < gi + 1) || strfile[gg] == table[gg].first, "C15 round trip: names written in table order (invariant re-established)");
}
/* writer, symbol loop: invariant  tableIndex == i, sym_words == 2i, symfile[2g] == g, symfile[2g+1] == table[g].second for g < i */
void h_rt_emit_symbols(void) {
  rt_state(); tableIndex = (uint32_t)gi; sym_words = 2 * gi;
  __CPROVER_assume(!(gg < gi) || (symfile[2 * gg] == (uint32_t)gg && symfile[2 * gg + 1] == table[gg].second));
  dbg_emit_symbols_body(&table[gi]);
  __CPROVER_assert(tableIndex == (uint32_t)(gi + 1) && sym_words == 2 * (gi + 1), "C15 round trip: one (index, offset) pair written per symbol");
  __CPROVER_assert(!(gg < gi + 1) || (symfile[2 * gg] == (uint32_t)gg && symfile[2 * gg + 1] == table[gg].second), "C15 round trip: pair g is (g, offset of symbol g) (invariant re-established)");
}
/* reader: the file holds what the writer's invariants say (instantiated at the pair being read);
   invariant  loaded_n == i, rd_pos == 2i, loaded[g] == table[g] for g < i */
void h_rt_load(void) {
  rt_state(); loaded_n = gi; rd_pos = 2 * gi;
  __CPROVER_assume(symfile[2 * gi] == (uint32_t)gi && symfile[2 * gi + 1] == table[gi].second && strfile[gi] == table[gi].first);
  __CPROVER_assume(!(gg < gi) || (loaded[gg].first == table[gg].first && loaded[gg].second == table[gg].second));
  dbg_load_symbol_body();
  __CPROVER_assert(loaded_n == gi + 1 && rd_pos == 2 * (gi + 1), "C15 round trip: one symbol loaded per pair read");
  __CPROVER_assert(!(gg < gi + 1) || (loaded[gg].first == table[gg].first && loaded[gg].second == table[gg].second),
                   "C15 round trip: the table hexsim loads is the table hexasm recorded, entry by entry, in order");
#ifdef CANARY
  __CPROVER_assert(0, "canary: harness end reachable");
#endif
}
#endif
"""


def build_rt_unit(chk):
    import dirx
    text = RT_UNIT.replace("__EMIT_BODIES__", dirx.emit_debug_parts(chk.manifest)).replace("__LOAD_BODY__", simx.load_debug_parts(chk.manifest))
    return chk.write("c15_rt_unit.c", text)


def build_sim_unit(chk):
    text = simunit.unit_text(chk, with_trace=True)
    return chk.write("c15_sim_unit.c", text + simunit.HARNESS + C15_HARNESS)



STR_PRELUDE = r"""
/* GENERATED on every run: NUL-terminated name codec of the debug tables (hexasm.hpp writer statement, hexsim.hpp reader loop) */
#include <stddef.h>
#include <stdint.h>
#define STR_MAX 40
#define NAME_MAX 24
size_t nondet_size(void); char nondet_char(void);
static char name_c_str[NAME_MAX + 1]; static size_t name_length;     /* std::string name: c_str()[length()] == 0 (library guarantee) */
static const char *wr_ptr; static size_t wr_n, wr_at, out_pos; static int wr_calls;   /* the one ostream::write of this step */
static char file_other;                                                /* any byte of the file outside that write */
static size_t file_pos; static size_t str_nul_at; static size_t str_k;
static char s_buf[STR_MAX]; static size_t s_len;
static int pushes; static size_t pushed_len; static char pushed_at_k;
#define OUT_WRITE(p, n) do { wr_ptr = (p); wr_n = (n); wr_at = out_pos; out_pos += (n); wr_calls++; } while (0)
#define FILE_BYTE(pos) (((pos) >= wr_at && (pos) - wr_at < wr_n && (pos) - wr_at <= NAME_MAX) ? wr_ptr[(pos) - wr_at] : file_other)
static int FILE_GET(void) { char b = FILE_BYTE(file_pos); file_pos++; return (unsigned char)b; }   /* istream::get(): the byte as unsigned char */
#define STR_PUSH() do { pushes++; pushed_len = s_len; if (str_k < s_len) pushed_at_k = s_buf[str_k]; } while (0)
"""

STR_HARNESS_HEAD = r"""
void h_str_codec(void) {
  name_length = nondet_size(); __CPROVER_assume(name_length <= NAME_MAX);
  for_each_name_byte
  __CPROVER_assume(name_c_str[name_length] == 0);
  out_pos = nondet_size(); __CPROVER_assume(out_pos < 1000000);
  size_t p0 = out_pos; wr_calls = 0; pushes = 0; str_k = nondet_size(); file_other = nondet_char();
  str_write_stmt();                                   /* the writer's statement for this name */
  __CPROVER_assert(wr_calls == 1 && wr_ptr == name_c_str && wr_n == name_length + 1, "C15 names: the writer emits the name and its terminator");
  file_pos = p0; str_nul_at = p0 + name_length;       /* the reader is positioned where the writer started */
  str_read_body();                                    /* one iteration of the reader's string loop */
  __CPROVER_assert(pushes == 1, "C15 names: one string pushed per name read");
  __CPROVER_assert(pushed_len == name_length, "C15 names: the name read back has the length written");
  __CPROVER_assert(!(str_k < name_length) || pushed_at_k == name_c_str[str_k], "C15 names: the name read back has the bytes written");
  __CPROVER_assert(file_pos == out_pos, "C15 names: the reader consumes exactly the bytes the writer produced (the next name starts where the writer put it)");
#ifdef CANARY
  __CPROVER_assert(0, "canary: harness end reachable");
#endif
#ifdef COVERGOAL
  __CPROVER_assert(!(name_length == NAME_MAX && str_k == NAME_MAX - 1), "covergoal: a name of maximal modelled length");
  __CPROVER_assert(!(name_length == 0), "covergoal: the empty name");
#endif
}
"""


def build_str_unit(chk):
    each = "".join("  if (%d < name_length) __CPROVER_assume(name_c_str[%d] != 0);\n" % (i, i) for i in range(24))
    text = STR_PRELUDE + simx.string_codec(chk.manifest) + STR_HARNESS_HEAD.replace("  for_each_name_byte\n", each)
    path = chk.write("c15_str_unit.c", text)
    rc, o, e, _ = hv.run(["goto-cc", "-DHEX_CBMC=1", "--function", "h_str_codec", path, "-o", os.path.join(chk.out, "c15_str_probe.gb")], timeout=120)
    if rc != 0:
        raise hv.ExtractionError("name codec: extracted text is not C: " + (e or o)[-300:].replace("\n", " "))
    return path


def main(chk, replay_file):
    tier = chk.tier
    sim = build_sim_unit(chk)
    asm = c05.build_unit(chk)
    rt = build_rt_unit(chk)
    chk.functions = ["hexsim::Processor::run (loop body) + trace (tuple of the trace line)", "hexsim::Processor::lookupSymbol",
                     "hexasm::CodeGen::emitProgramBin (FUNC/PROC symbol recording)"]
    chk.trusted = ["CBMC 6.11.0 + MiniSat", "extractor rules (simx/dirx)", "boost::format prints the values it is given (EV_FMT/EV_ARG keep the argument tuple)",
                   "std::map debugInfoMap[name] returns the offset recorded for that name: unique names assumed",
                   "instrEnumToStr maps the opcode enum to its mnemonic (hex.cpp table, not under contract)"]
    chk.assumptions = [
        "NOT decided here: that xcmp places a FUNC/PROC directive at each procedure's first instruction, and that procedure entries in a trace equal the source call sequence (compiler correctness, C01): the property is claimed at the level 'mechanisms proved, corollary assumed'",
        "symbol-table round trip: the loop bodies of emitDebugInfo and of load()'s symbol reader are under inductive invariants (symbolic table length, ghost index); the enclosing structure of both functions is compared textually; string bytes are dropped (names are ids; the NUL-terminated encoding/decoding of the names themselves is only exercised by the native stage); base cases (empty prefix) and the composition writer-invariant => reader-assumption are paper glue",
        "symbol offsets non-decreasing: follows from the layout chain (C05 pass.chain) + one entry per FUNC/PROC in emission order (emit.step)",
    ]
    if replay_file:
        print("C15 has no standalone replay; see the native stage in the evidence")
        return 0
    J = hv.Job
    jobs = [
        J("trace.tuple", sim, "h_trace_tuple", defines=["TRACING_INIT=true"], replace=["lookupSymbol"], stop_on_fail=True, functions=["run() loop body", "trace"]),
        J("lookupSymbol.contract", sim, "h_lookupSymbol", enforce="lookupSymbol", loop_contracts=True, functions=["lookupSymbol"]),
        J("lookupSymbol.last", sim, "h_lookup_last", replace=["lookupSymbol"], functions=["lookupSymbol (caller side)"]),
        J("emit.symbols", asm, "h_emit_step", unwind=9, stop_on_fail=True, functions=["emitProgramBin loop body (FUNC/PROC arms)"]),
        J("roundtrip.emit_strings", rt, "h_rt_emit_strings", functions=["emitDebugInfo string loop body"], note="inductive step, symbolic table length"),
        J("roundtrip.emit_symbols", rt, "h_rt_emit_symbols", functions=["emitDebugInfo symbol loop body"], note="inductive step, symbolic table length"),
        J("roundtrip.load", rt, "h_rt_load", functions=["Processor::load symbol loop body"], note="inductive step; file content = writer's invariant instantiated at the pair read"),
        J("roundtrip.load.canary", rt, "h_rt_load", defines=["CANARY"], kind="canary", checks=[]),
        J("trace.tuple.canary", sim, "h_trace_tuple", defines=["TRACING_INIT=true", "CANARY"], replace=["lookupSymbol"], kind="canary", checks=[]),
        J("lookupSymbol.last.canary", sim, "h_lookup_last", replace=["lookupSymbol"], defines=["CANARY"], kind="canary", checks=[]),
    ]
    try:
        su = build_str_unit(chk)
        jobs += [
            J("names.codec", su, "h_str_codec", loop_contracts=True, object_bits=12, timeout=300,
              functions=["emitDebugInfo name write", "Processor::load string loop body"],
              note="writer statement + reader loop (dfcc loop contract) on one name of symbolic content and length <= 24: the reader returns the bytes written and stops where the writer stopped"),
            J("names.codec.canary", su, "h_str_codec", loop_contracts=True, object_bits=12, defines=["CANARY"], kind="canary", checks=[], timeout=300),
            J("names.codec.cover", su, "h_str_codec", loop_contracts=True, object_bits=12, defines=["COVERGOAL"], kind="cover", cover_by_assert=True, checks=[], timeout=300),
        ]
        chk.functions += ["hexsim::Processor::load (string loop body)", "hexasm::CodeGen::emitDebugInfo (name write)"]
        chk.assumptions[1] = chk.assumptions[1].replace(
            "string bytes are dropped (names are ids; the NUL-terminated encoding/decoding of the names themselves is only exercised by the native stage)",
            "in the table jobs names are ids; the NUL-terminated encoding of one name is under contract separately (names.codec: the reader loop returns exactly the bytes the writer statement produced and consumes exactly that many; names of at most 24 bytes without an embedded NUL -- identifiers never contain one; std::string::c_str()[length()] == 0 is the library guarantee)")
    except hv.ExtractionError as ex:
        chk.warnings.append("name codec not in the recognised shape, names.codec skipped (names stay ids; the native stage still reads real tables): " + str(ex))
    chk.jobs = jobs
    hv.run_jobs(jobs, chk.out)
    native_stage(chk)
    for j in jobs:
        r = j.result
        if j.kind != "proof" or r["status"] != "failed":
            continue
        for f in r["failed"]:
            name = j.name + ":" + f["name"]
            p = chk.replay_path(f["name"])
            json.dump({"property": PID, "obligation": name, "desc": f["desc"], "verifier_counterexample": f.get("cex"), "native_stage": chk.native}, open(p, "w"), indent=1)
            chk.add_violation(name, p, f["desc"], False)
    return chk.finish()


def native_stage(chk):
    exe = os.path.join(chk.out, "c15_native")
    hv.build_native(os.path.join(hv.VERIF, "native", "c15_native.cpp"), exe, extra=[os.path.join(hv.REPO, "hex.cpp")])
    n = 200 if chk.tier == "quick" else 5000
    rc, o, e, secs = hv.run([exe, str(chk.seed), str(n)], timeout=3000, cwd=chk.out)
    try:
        r = json.loads(o.strip().splitlines()[-1])
    except Exception:
        raise hv.Infra("native trace stage failed: " + (o + e)[-800:])
    r["stage"] = "real hexasm -> real hexsim -t on generated programs with FUNC/PROC directives: every trace line checked against an ISA reference run and the symbol table in the binary"
    r["secs"] = round(secs, 1)
    chk.native.append(r)
    if r.get("bad"):
        p = os.path.join(hv.OUTROOT, "replay", "C15-native.S")
        open(p, "w").write(r.get("first_program", ""))
        chk.add_violation("native-trace", p, r.get("why", ""), True)


def native_only(chk):
    native_stage(chk)

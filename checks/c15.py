"""C15 -- trace and debug symbols report what is actually executing.

Mechanisms under contract (the call-sequence corollary rests on compiler correctness, C01, and is NOT claimed):
  trace.tuple        run()'s loop body with tracing on (real trace()): the first values of the trace line are
                     (instructions executed before this one, byte address fetched, [symbol, pc - symbol offset],
                      mnemonic of the fetched opcode, fetched byte & 0xF) and the instruction then executed is that one
                     (the step equals isa_step: C12 step.traced, re-proved here)
  lookupSymbol       function + loop contract over a table of symbolic length: below the first entry -> none; else an entry
                     with offset <= pc and pc < next offset (or last); no out-of-bounds read of debugInfo[i+1]
  last-entry lemma   with non-decreasing offsets that entry is the LAST one with offset <= pc (ghost index, sortedness
                     instantiated at the two indices used)
  emit symbols       (C05's emit.step, run here too) one entry per FUNC/PROC directive, in order, with the offset of the next
                     emitted byte = the label's address
  table round trip   emitDebugInfo / load() symbol-table reader as an encode/decode pair over a ghost word stream, loop
                     bodies extracted, invariants as base/step/exit obligations (symbolic table length)
"""
import json
import os
import re

import hv
import simunit
import simx
import c05

PID = "C15"

C15_HARNESS = r"""
#ifdef HEX_CBMC
/* the trace line of one step */
void h_trace_tuple(void) {
  havoc_state();
  g_oracle_in = 0;
  __CPROVER_assume(debugInfo_size <= 100000);
  uint32_t pc0 = pc; size_t cycles0 = cycles;
  isa_state s = { pc, areg, breg, oreg, true, 0 };
  isa_write w; isa_event ev; isa_status st;
  isa_step(&s, memory, 0, &w, &ev, &st);
  __CPROVER_assume(st.defined && st.in_range);
  uint32_t byte = (memory[pc0 >> 2] >> ((pc0 & 3) << 3)) & 0xFF;
  bool have_table = debugInfo_size != 0;
  step();
  __CPROVER_assert(g_fmt_calls >= 1, "C15: every traced step prints a line");
  __CPROVER_assert(g_first_nargs == (have_table ? 6 : 4), "C15: line shape (count, address, [symbol+offset], mnemonic, operand)");
  __CPROVER_assert(g_first_args[0] == (uint64_t)cycles0, "C15: first column is the running instruction count");
  __CPROVER_assert(g_first_args[1] == (uint64_t)pc0, "C15: second column is the byte address of the instruction executed");
  int base = have_table ? 4 : 2;
  __CPROVER_assert(g_first_args[base] == (uint64_t)((byte >> 4) & 0xF), "C15: mnemonic is that of the fetched opcode");
  __CPROVER_assert(g_first_args[base + 1] == (uint64_t)(byte & 0xF), "C15: operand column is the fetched byte's low nibble");
  __CPROVER_assert(pc == s.pc && areg == s.areg && breg == s.breg && oreg == s.oreg, "C15: the instruction executed is the one reported (ISA successor of the reported byte)");
  if (have_table) {
    bool none = pc0 < debugInfo[0].second;
    __CPROVER_assume(g_lookup_idx >= debugInfo_size || debugInfo[g_lookup_idx].first >= 0);   /* modelling convention: name ids are non-negative, -1 = no symbol */
    __CPROVER_assert(none == ((int)g_first_args[2] == -1), "C15: no symbol below the first entry");
    if (!none) {
      __CPROVER_assert(g_lookup_idx < debugInfo_size && (int)g_first_args[2] == debugInfo[g_lookup_idx].first, "C15: symbol column names the entry found by lookupSymbol");
      __CPROVER_assert((uint32_t)g_first_args[3] == pc0 - debugInfo[g_lookup_idx].second, "C15: offset column is pc minus the entry's offset");
      __CPROVER_assert(((uint32_t)g_first_args[3] == 0) == (pc0 == debugInfo[g_lookup_idx].second), "C15: offset 0 exactly at the procedure's entry");
    }
  }
#ifdef CANARY
  __CPROVER_assert(0, "canary: harness end reachable");
#endif
}

void h_lookupSymbol(void) {
  size_t n = nondet_size(); __CPROVER_assume(n >= 1 && n <= 100000);
  debugInfo_size = n; lastPC = nondet_u32();
  lookupSymbol();
}

/* with non-decreasing offsets the entry returned is the last one at or below pc */
void h_lookup_last(void) {
  size_t n = nondet_size(); __CPROVER_assume(n >= 1 && n <= 100000);
  debugInfo_size = n; debugInfo = malloc(n * sizeof(DebugEntry)); __CPROVER_assume(debugInfo != NULL);
  lastPC = nondet_u32();
  const DebugEntry *r = lookupSymbol();
  size_t j = nondet_size(); __CPROVER_assume(j < n);
  if (r != NULL && j > g_lookup_idx) {
    /* sortedness (forall a < b: offset[a] <= offset[b]) instantiated at (idx+1, j) */
    __CPROVER_assume(debugInfo[g_lookup_idx + 1].second <= debugInfo[j].second);
    __CPROVER_assert(lastPC < debugInfo[j].second, "C15: every later entry starts above pc (the entry found is the last at or below pc)");
  }
  if (r == NULL) {
    __CPROVER_assume(debugInfo[0].second <= debugInfo[j].second);
    __CPROVER_assert(lastPC < debugInfo[j].second, "C15: below the first entry no entry is at or below pc");
  }
#ifdef CANARY
  __CPROVER_assert(0, "canary: harness end reachable");
#endif
}
#endif
"""


def build_sim_unit(chk):
    text = simunit.unit_text(chk, with_trace=True)
    return chk.write("c15_sim_unit.c", text + simunit.HARNESS + C15_HARNESS)


def main(chk, replay_file):
    tier = chk.tier
    sim = build_sim_unit(chk)
    asm = c05.build_unit(chk)
    chk.functions = ["hexsim::Processor::run (loop body) + trace (tuple of the trace line)", "hexsim::Processor::lookupSymbol",
                     "hexasm::CodeGen::emitProgramBin (FUNC/PROC symbol recording)"]
    chk.trusted = ["CBMC 6.11.0 + MiniSat", "extractor rules (simx/dirx)", "boost::format prints the values it is given (EV_FMT/EV_ARG keep the argument tuple)",
                   "std::map debugInfoMap[name] returns the offset recorded for that name: unique names assumed",
                   "instrEnumToStr maps the opcode enum to its mnemonic (hex.cpp table, not under contract)"]
    chk.assumptions = [
        "NOT decided here: that xcmp places a FUNC/PROC directive at each procedure's first instruction, and that procedure entries in a trace equal the source call sequence (compiler correctness, C01): the property is claimed at the level 'mechanisms proved, corollary assumed'",
        "symbol-table round trip through the binary (emitDebugInfo / load) is covered by the native stage only (real hexasm -> real hexsim), not by a contract: BOUNDED/sampled, not counted as proved",
        "symbol offsets non-decreasing: follows from the layout chain (C05 pass.chain) + one entry per FUNC/PROC in emission order (emit.step)",
    ]
    if replay_file:
        print("C15 has no standalone replay; see the native stage in the evidence")
        return 0
    J = hv.Job
    jobs = [
        J("trace.tuple", sim, "h_trace_tuple", defines=["TRACING_INIT=true"], replace=["lookupSymbol"], stop_on_fail=True, functions=["run() loop body", "trace"]),
        J("lookupSymbol.contract", sim, "h_lookupSymbol", enforce="lookupSymbol", loop_contracts=True, functions=["lookupSymbol"]),
        J("lookupSymbol.last", sim, "h_lookup_last", replace=["lookupSymbol"], functions=["lookupSymbol (caller side)"]),
        J("emit.symbols", asm, "h_emit_step", unwind=9, stop_on_fail=True, functions=["emitProgramBin loop body (FUNC/PROC arms)"]),
        J("trace.tuple.canary", sim, "h_trace_tuple", defines=["TRACING_INIT=true", "CANARY"], replace=["lookupSymbol"], kind="canary", checks=[]),
        J("lookupSymbol.last.canary", sim, "h_lookup_last", replace=["lookupSymbol"], defines=["CANARY"], kind="canary", checks=[]),
    ]
    chk.jobs = jobs
    hv.run_jobs(jobs, chk.out)
    native_stage(chk)
    for j in jobs:
        r = j.result
        if j.kind != "proof" or r["status"] != "failed":
            continue
        for f in r["failed"]:
            name = j.name + ":" + f["name"]
            p = chk.replay_path(f["name"])
            json.dump({"property": PID, "obligation": name, "desc": f["desc"], "verifier_counterexample": f.get("cex"), "native_stage": chk.native}, open(p, "w"), indent=1)
            chk.add_violation(name, p, f["desc"], False)
    return chk.finish()


def native_stage(chk):
    exe = os.path.join(chk.out, "c15_native")
    hv.build_native(os.path.join(hv.VERIF, "native", "c15_native.cpp"), exe, extra=[os.path.join(hv.REPO, "hex.cpp")])
    n = 200 if chk.tier == "quick" else 5000
    rc, o, e, secs = hv.run([exe, str(chk.seed), str(n)], timeout=3000, cwd=chk.out)
    try:
        r = json.loads(o.strip().splitlines()[-1])
    except Exception:
        raise hv.Infra("native trace stage failed: " + (o + e)[-800:])
    r["stage"] = "real hexasm -> real hexsim -t on generated programs with FUNC/PROC directives: every trace line checked against an ISA reference run and the symbol table in the binary"
    r["secs"] = round(secs, 1)
    chk.native.append(r)
    if r.get("bad"):
        p = os.path.join(hv.OUTROOT, "replay", "C15-native.S")
        open(p, "w").write(r.get("first_program", ""))
        chk.add_violation("native-trace", p, r.get("why", ""), True)


def native_only(chk):
    native_stage(chk)

"""C06 -- a binary behaves identically on the RTL testbench and on the simulator.

Lock-step simulation relation between the extracted hexsim (run() loop body, syscall, HexSimIO) and the extracted hextb
(run() loop body split at the system-call sampling `if`, handleSyscall) over the Verilator-generated model, all in one
translation unit.  The two loops service a system call at different points -- hexsim while it executes the SVC, hextb
when the SVC has been fetched, one edge earlier -- so the relation R is stated at the point of hextb's loop body between
eval() and the sampling `if` on a rising-edge tick:

  R:  registers equal; memories agree on every word the program may read (ghost 'loaded or written' flag, instantiated at
      the words this step reads, concluded for a ghost word k); stream-file state equal; reset asserted exactly while
      time < RESET_END (registers then 0); RTL nets settled; (oreg & 0xF) == 0.

  lockstep.step   R  +  one hexsim step   ~   [tail of tick t (sample + service), tick t+1, head of tick t+2 (rising edge)]
                  => same I/O event (kind, stream/file, byte, file opened), same input consumption, same termination and
                     exit value, and R again.   All register values x memory contents x defined instructions x t.
  lockstep.base   hextb from EVERY power-on state up to the first R-point whose next rising edge releases reset
                  (tick RESET_END-1): either the run already ended by an exit call issued from the start state, or R holds
                  against the simulator's constructor+load state (registers 0, image loaded).
Whole runs follow by induction on steps (paper glue).  The "Wrote N bytes" banner, --max-cycles, VCD tracing and the
OS's 8-bit truncation of the exit status are outside the contract (same code path in both tools / ignored by the property).
"""
import json
import os
import re

import hv
import asmx
import simx
import simunit
import tbx
import tbunit
import vl2c

PID = "C06"

HARNESS = r"""
#ifdef HEX_CBMC
typedef struct { int io_calls, ev_kind, ev_file, opens, open_idx, open_mode, open_name; bool ev_to_file; uint8_t ev_byte; } Ev;
static Ev ev_take(void) { Ev e = { g_io_calls, g_ev_kind, g_ev_file, g_opens, g_open_idx, g_open_mode, g_open_name, g_ev_to_file, g_ev_byte };
  g_io_calls = 0; g_ev_kind = EV_NONE; g_ev_file = 0; g_opens = 0; g_open_idx = -1; g_open_mode = 0; g_open_name = 0; g_ev_to_file = false; g_ev_byte = 0; return e; }
typedef struct { CData o_f_data; IData o_d_addr, o_d_data; CData o_syscall_valid, o_syscall; } Nets;
static Nets nets(void) { Nets r = { M->__PVT__o_f_data, P->__PVT__o_d_addr, M->__PVT__o_d_data, S.TOP.o_syscall_valid, S.TOP.o_syscall }; return r; }

void h_lockstep(void) {
  power_on();
  havoc_state();                                   /* hexsim: arbitrary registers, memory, stream-file state */
  /* ---- an R-point of hextb's loop: after eval() on a rising-edge tick, before the sampling `if` ---- */
  tb_time = nondet_u64(); __CPROVER_assume((tb_time & 1) == 1 && tb_time >= RESET_END - 1 && tb_time < ((uint64_t)1 << 62));
  bool rst = tb_time < RESET_END;
  S.TOP.i_clk = 1; S.TOP.i_rst = rst;
  Vhex_eval_step(&S);                              /* generated initial/settle code: nets settled, edge history = (1, rst), no edge */
  tb_break = false; tb_gotFinish = false; tb_trace = nondet_bool(); tb_maxCycles = 0; tb_exitCode = 0; cycle_count = nondet_u64() >> 2; verif_thrown = false;
  /* registers equal */
  pc = P->pc_q; areg = P->__PVT__areg_q; breg = P->__PVT__breg_q; oreg = P->__PVT__oreg_q;
  uint32_t cex_pc = pc, cex_areg = areg, cex_breg = breg, cex_oreg = oreg;
  __CPROVER_assume(!rst || (pc == 0 && areg == 0 && breg == 0 && oreg == 0));
  __CPROVER_assume((oreg & 0xFu) == 0 && pc < 4u * ISA_MEM_WORDS);
  /* the quantifier of the property, from the ISA: defined instruction, addresses inside both memories */
  int cex_in = nondet_int(); __CPROVER_assume(cex_in >= -1 && cex_in <= 255); g_oracle_in = cex_in;
  isa_state s = { pc, areg, breg, oreg, true, 0 }; isa_write w; isa_event ev; isa_status st;
  isa_step(&s, memory, cex_in, &w, &ev, &st);
  __CPROVER_assume(st.defined && st.in_range && s.pc < 4u * ISA_MEM_WORDS);
  uint32_t byte = (memory[pc >> 2] >> ((pc & 3) << 3)) & 0xFF, opc = byte >> 4, opr = oreg | (byte & 0xF);
  __CPROVER_assume(opc != I_LDAP || s.areg < 4u * ISA_MEM_WORDS);
#ifdef OPCLASS
  /* the obligation is split by instruction class and the parts run in parallel; the classes partition all opcodes */
  { int cls = (opc == I_OPR && opr == O_SVC) ? 3 : (opc == I_OPR) ? 2 : (opc == I_LDAM || opc == I_LDBM || opc == I_STAM || opc == I_LDAI || opc == I_LDBI || opc == I_STAI) ? 0 : 1;
    __CPROVER_assume(cls == OPCLASS); }
#endif
  /* "programs that never read memory they have not written": every word this step reads is loaded-or-written, hence equal */
  uint32_t a_f = pc >> 2, a_d = (opc == I_LDAI) ? areg + opr : (opc == I_LDBI || opc == I_STAI) ? breg + opr : opr;
  uint32_t sp = memory[1];
  bool is_svc = (opc == I_OPR && opr == O_SVC);
  __CPROVER_assume(memory[a_f] == M->memory_q[a_f]);
  if (opc == I_LDAM || opc == I_LDBM || opc == I_LDAI || opc == I_LDBI) __CPROVER_assume(memory[a_d] == M->memory_q[a_d]);
  if (is_svc) { __CPROVER_assume(memory[1] == M->memory_q[1]); __CPROVER_assume(sp + 3 > sp && sp + 3 < ISA_MEM_WORDS);
                __CPROVER_assume(memory[sp + 2] == M->memory_q[sp + 2] && memory[sp + 3] == M->memory_q[sp + 3]); }
  /* well-defined programs never store to a word an instruction is fetched from (C08): hextb services READ one edge before the
     RTL executes the SVC, so a READ whose target is the SVC's own word would be observed in a different order */
  __CPROVER_assume(!(is_svc && areg == 2) || sp + 1 != a_f);
  uint32_t cex_word = memory[a_f], cex_sp = sp, cex_data = memory[a_d < ISA_MEM_WORDS ? a_d : 0], cex_ad = a_d, cex_s2 = memory[sp + 2 < ISA_MEM_WORDS ? sp + 2 : 0], cex_s3 = memory[sp + 3 < ISA_MEM_WORDS ? sp + 3 : 0];
  uint32_t k = nondet_u32(); __CPROVER_assume(k < ISA_MEM_WORDS);
  bool inW_k = nondet_bool(); __CPROVER_assume(!inW_k || memory[k] == M->memory_q[k]);
  uint32_t rtl_old_k = M->memory_q[k];
  /* vacuity guards: every assumption of the harness has been made at this point; the code below contains none */
#ifdef CANARY
  __CPROVER_assert(0, "canary: all assumptions of the lock-step harness are jointly satisfiable");
#endif
#ifdef COVER
  __CPROVER_cover(is_svc && areg == 0 && !s.running); __CPROVER_cover(is_svc && areg == 1 && ev.to_file && !connected[ev.file_index]); __CPROVER_cover(is_svc && areg == 2 && cex_in == -1);
  __CPROVER_cover(rst && opc == I_LDAC); __CPROVER_cover(!rst && opc == I_STAI && w.wr && w.waddr == k && inW_k); __CPROVER_cover(rst && is_svc);
  __CPROVER_cover(!rst && opc == I_BRN && (int)areg < 0 && s.pc != pc + 1); __CPROVER_cover(!rst && tb_time > 1000 && opc == I_LDAI && memory[a_d] != 0);
#endif
  int j = nondet_int(); __CPROVER_assume(j >= 0 && j < 8);
  int fidx = (int)ev.file_index;                    /* the only stream-file slots this step can touch or that are observed */
  bool conn0_j = connected[j], conn0_f = connected[fidx];
  (void)ev_take();

  /* ---- hexsim: one iteration of run()'s loop ---- */
  step();
  Ev es = ev_take();
  bool conn_s_j = connected[j]; connected[fidx] = conn0_f; connected[j] = conn0_j;   /* hextb's own HexSimIO instance starts from the same file state */
  bool thrown_s = verif_thrown; verif_thrown = false;

  /* ---- hextb: tail of this tick (sample + service), the falling-edge tick, head of the next rising-edge tick ---- */
  tb_tick_tail();
  if (!tb_break) { tb_tick_head(); tb_tick_tail(); tb_tick_head(); }
  Ev et = ev_take();

  __CPROVER_assert(!thrown_s && !verif_thrown, "C06: neither tool reports an error for a defined instruction");
  __CPROVER_assert(running == !tb_break, "C06: both tools terminate at the same instruction (exit call) or both continue");
  __CPROVER_assert(running || exitCode == tb_exitCode, "C06: same exit value");
  __CPROVER_assert(es.io_calls == et.io_calls && es.ev_kind == et.ev_kind && es.ev_to_file == et.ev_to_file && (!es.ev_to_file || es.ev_file == et.ev_file),
                   "C06: same stream operation (kind, standard stream or file index), same input consumption");
  __CPROVER_assert(es.ev_kind != EV_WRITE || es.ev_byte == et.ev_byte, "C06: same byte written");
  __CPROVER_assert(es.opens == et.opens && (es.opens == 0 || (es.open_idx == et.open_idx && es.open_mode == et.open_mode && es.open_name == et.open_name)), "C06: same stream file opened");
  __CPROVER_assert(connected[j] == conn_s_j, "C06: stream-file state equal afterwards");
  if (running) {
    __CPROVER_assert(P->pc_q == pc && P->__PVT__areg_q == areg && P->__PVT__breg_q == breg && P->__PVT__oreg_q == oreg, "C06: registers equal after the step (R re-established)");
    bool wrote_k = memory[k] != (inW_k ? rtl_old_k : memory[k]) || (w.wr && w.waddr == k);
    __CPROVER_assert(!(inW_k || (w.wr && w.waddr == k)) || memory[k] == M->memory_q[k], "C06: memories agree on every loaded-or-written word (R re-established)");
    __CPROVER_assert((w.wr && w.waddr == k) || M->memory_q[k] == rtl_old_k, "C06: hextb changes no other memory word");
    __CPROVER_assert(tb_time >= RESET_END && (tb_time & 1) == 1 && S.TOP.i_clk == 1 && S.TOP.i_rst == 0, "C06: next R-point: rising-edge tick, reset released");
    __CPROVER_assert((P->__PVT__oreg_q & 0xFu) == 0, "C06: invariant (oreg & 0xF) == 0 re-established");
    Nets n1 = nets(); Vhex___024root___eval_settle(&S.TOP); Nets n2 = nets();
    __CPROVER_assert(n1.o_f_data == n2.o_f_data && n1.o_d_addr == n2.o_d_addr && n1.o_d_data == n2.o_d_data && n1.o_syscall_valid == n2.o_syscall_valid && n1.o_syscall == n2.o_syscall,
                     "C06: RTL nets settled at the next R-point");
  }
}

/* hextb load(): size arithmetic and copy extent (file operations are stubs).  With hexsim's load (C12: memory[k] = image word k
   for k < header words present in the file) this gives the memory part of R at the start: both tools hold the same image words. */
static size_t g_file_size; static uint32_t g_file_header; static size_t g_buf_elems, g_read_bytes, g_memcpy_bytes; static unsigned g_banner;
#define FILE_OPEN() ((void)0)
#define FILE_SIZE() ((long)g_file_size)
static inline void FILE_READ_U32(unsigned *dst) { *dst = g_file_header; }
#define FILE_READ_BUFFER(n) do { g_read_bytes = (n); } while (0)      /* istream::read into buffer.data(): at most n bytes, the rest of the zero-initialised vector stays 0 */
#define TB_MEMCPY_TO_DUT(n) do { g_memcpy_bytes = (n); } while (0)    /* std::memcpy(memory_q.data(), buffer.data(), n) */
#define TB_MEMZERO_DUT(n) ((void)(n))                                  /* zero fill before the copy: C13 load.determined */
#define TB_BANNER(n) do { g_banner = (n); } while (0)
TB_LOAD_FN
void h_tb_load(void) {
  size_t present = nondet_size();                      /* bytes in the file after the 4-byte header */
  uint32_t hdr = nondet_u32();
  __CPROVER_assume(present <= 4u * (size_t)RTL_WORDS - 4 && hdr <= ISA_MEM_WORDS);
  g_file_size = 4 + present; g_file_header = hdr; g_buf_elems = 0;
  tb_load();
  size_t rounded = (present + 3) & ~(size_t)3;
  __CPROVER_assert(g_memcpy_bytes == rounded && g_read_bytes == rounded, "C06 load: hextb copies the whole remainder of the file, rounded up to a word, to address 0 of the RTL memory");
  __CPROVER_assert(g_memcpy_bytes <= 4u * (size_t)RTL_WORDS, "C06 load: the copy stays inside the RTL memory");
  __CPROVER_assert(g_buf_elems * sizeof(uint32_t) >= g_read_bytes && g_buf_elems * sizeof(uint32_t) >= g_memcpy_bytes, "C06 load: reads and copies stay inside the staging vector");
  __CPROVER_assert(!(present >= 4 * (size_t)hdr) || g_memcpy_bytes >= 4 * (size_t)hdr, "C06 load: every image word announced by the header and present in the file is in RTL memory at its word address (as in hexsim)");
#ifdef CANARY
  __CPROVER_assert(0, "canary: harness end reachable");
#endif
}

/* base case: hextb from every power-on state to the first R-point whose next rising edge releases reset */
void h_base(void) {
  power_on();
  uint32_t sp = M->memory_q[1]; __CPROVER_assume(sp < ISA_MEM_WORDS - 3);
  uint32_t k = nondet_u32(); __CPROVER_assume(k < RTL_WORDS); uint32_t memk = M->memory_q[k];   /* memory as hextb's load() left it */
  uint32_t byte0 = M->memory_q[0] & 0xFF; uint32_t exitw = M->memory_q[sp + 2];
  g_oracle_in = 0; (void)ev_take();
  tb_time = 0; tb_break = false; tb_gotFinish = false; tb_trace = nondet_bool(); tb_maxCycles = 0; verif_thrown = false;
  tb_prologue();
  for (unsigned it = 0; it + 2 < RESET_END; it++) { if (!TB_RUN_COND || tb_break) break; tb_tick(); }
  if (!tb_break) tb_tick_head();
  Ev et = ev_take();
  /* hexsim after constructor + load (C12): pc = areg = breg = oreg = 0, running, memory = image then zeros */
  if (tb_break) {
    __CPROVER_assert(byte0 == 0xD3 && tb_exitCode == (int)exitw && et.io_calls == 0,
                     "C06 base: the run can only end before reset is released by an exit call fetched at address 0 from the start state, with the value the simulator's first step returns");
  } else {
    __CPROVER_assert(tb_time == RESET_END - 1 && S.TOP.i_clk == 1 && S.TOP.i_rst == 1, "C06 base: R-point at tick RESET_END-1, reset still asserted");
    __CPROVER_assert(P->pc_q == 0 && P->__PVT__areg_q == 0 && P->__PVT__breg_q == 0 && P->__PVT__oreg_q == 0, "C06 base: registers equal the simulator's start state");
    __CPROVER_assert(M->memory_q[k] == memk, "C06 base: memory is what load() wrote (image intact)");
    __CPROVER_assert(et.io_calls == 0 && !verif_thrown, "C06 base: no I/O and no error before the start");
  }
#ifdef CANARY
  __CPROVER_assert(0, "canary: harness end reachable");
#endif
}
#endif
"""


def build_unit(chk):
    m = chk.manifest
    vtext, info = vl2c.verilate(tbunit.SOURCES, "hex", "Vhex", chk.out, m, extra_args=["--trace"])
    pre = "#define VL_IDX(e, n) vl_idx((e), (n))\n#include <stdint.h>\nstatic inline uint32_t vl_idx(uint32_t e, uint32_t n) { __CPROVER_assert(e < n, \"RTL memory index below MEM_DEPTH\"); return e; }\n"
    consts, rb, re_ = tbx.constants(m)
    en, _ = asmx.enums(m)
    fld, names = simx.fields(m)
    io, in_ty = simx.io_fns(m)
    sysc = simx.syscall_fn(m, in_ty)
    cond, step, ret = simx.run_parts(m)
    tb_prelude = tbunit.TB_PRELUDE.replace("#ifndef TB_NO_GLOBALS\nbool verif_thrown;\n#endif\n", "bool verif_thrown;\n")
    text = (pre + vtext + tb_prelude + consts + en + simunit.GHOST_IO + fld + simunit.ACCESSORS + names.get("__helpers__", "") + io + sysc + simunit.NO_TRACE_STUBS + step + simunit.hidden_text(chk, m, names)
            + "#define TB_SYSCALL_ENTRY(sc) ((void)0)\n" + tbx.handleSyscall(m))
    rp, prologue = tbx.run_parts(m)
    text += rp
    protos, defs = hv.pull_helpers(text, "hextb.cpp", m)
    if protos:
        i = text.index("#define TB_SYSCALL_ENTRY")
        text = text[:i] + protos + text[i:] + defs
    text += tbunit.TB_POWER_ON.replace("#ifdef HEX_CBMC\n", "#ifdef HEX_CBMC\n", 1)
    # hexsim's havoc_state from the shared harness text
    hs = simunit.HARNESS
    i = hs.index("static void havoc_state(void) {")
    j = hs.index("/* Hoare triple for one iteration")
    tbl = tbx.load_fn(m).replace("size_t buffer_size = remainingFileSize;", "size_t buffer_size = remainingFileSize; g_buf_elems = remainingFileSize;")
    text += "#ifdef HEX_CBMC\n_Bool nondet_bool(void);\n" + hs[i:j] + "#endif\n" + HARNESS.replace("TB_LOAD_FN", tbl)
    # loop-carried locals of hextb's run() other than the known ones are arbitrary at an R-point (R does not mention them)
    hav = "".join("  %s = (%s)nondet_u64();\n" % (n, t) for t, n, v in prologue["extra_locals"])
    text = text.replace("  /* registers equal */\n", hav + "  /* registers equal */\n", 1)
    return chk.write("c06_unit.c", text), {"RESET_BEGIN": rb, "RESET_END": re_, "prologue": prologue["stmts"], "extra_locals": prologue["extra_locals"]}


def native(chk):
    """real hexsim and real hextb (own load()/run()) in one executable; programs from the real xcmp/hexasm"""
    mdir = os.path.join(chk.out, "vl_native")
    os.makedirs(mdir, exist_ok=True)
    srcs = [os.path.join(hv.REPO, s) for s in tbunit.SOURCES]
    cmd = ["verilator", "--cc", "--exe", "--build", "-j", "8", "--top-module", "hex", "--prefix", "Vhex_pkg", "--trace", "-Wno-fatal", "-Wno-lint",
           "-CFLAGS", "-O1 -w -std=c++17 -DNDEBUG -Dmain=hextb_main -I%s -I%s" % (hv.REPO, os.path.join(hv.VERIF, "spec")), "--Mdir", mdir, "-o", "c06_native"] + srcs + \
          [os.path.join(hv.REPO, "hextb.cpp"), os.path.join(hv.REPO, "hex.cpp"), os.path.join(hv.VERIF, "native", "c06_native.cpp")]
    rc, o, e, secs = hv.run(cmd, timeout=1200)
    if rc != 0:
        raise hv.Infra("native hextb+hexsim build failed: " + (e or o)[-2500:])
    return os.path.join(mdir, "c06_native")


def native_stage(chk):
    exe = native(chk)
    n = 40 if chk.tier == "quick" else 1500
    rc, o, e, secs = hv.run([exe, "sweep", str(chk.seed), str(n), os.path.join(hv.REPO, "tests")], timeout=3000, cwd=chk.out)
    try:
        r = json.loads(o.strip().splitlines()[-1])
    except Exception:
        raise hv.Infra("native hextb-vs-hexsim stage failed: " + (o + e)[-800:])
    r["stage"] = "real hexsim::Processor vs hextb.cpp's own load()/run() on the natively Verilated model: shipped test programs (real xcmp/hexasm output) + generated assembly programs x inputs x seeds; stdout after the banner, input consumption and exit value compared"
    r["secs"] = round(secs, 1)
    chk.native.append(r)
    if r.get("bad"):
        p = chk.replay_path("native")
        json.dump({"property": PID, "obligation": "native hextb vs hexsim", "real_code_result": r}, open(p, "w"), indent=1)
        chk.add_violation("native-lockstep", p, r.get("why", ""), True)
    cli_stage(chk, exe)
    return exe


def cli_stage(chk, exe):
    """the two EXECUTABLES' entry points: hexsim.cpp's main (built as a program) and hextb.cpp's own main() (called in a child
    process of the native harness, which links hextb.cpp with main renamed): stdout after the banner and process status"""
    import subprocess
    import c02
    hexsim = os.path.join(chk.out, "hexsim_cli")
    hv.build_native(os.path.join(hv.REPO, "hexsim.cpp"), hexsim, extra=[os.path.join(hv.REPO, "hex.cpp")], opt="-O1", hooks=False)
    E = c02._enc
    d = os.path.join(chk.out, "scratch", "cli")
    os.makedirs(d, exist_ok=True)
    def image(name, code):
        img = bytes([0x97, 0, 0, 0]) + (1000).to_bytes(4, "little") + code
        img += b"\0" * (-len(img) % 4)
        open(os.path.join(d, name), "wb").write((len(img) // 4).to_bytes(4, "little") + img)
    echo = b"".join([E("LDBM", 1), E("LDAC", 0), E("STAI", 2), E("LDAC", 2), E("OPR", 3),                                   # read stdin
                     E("LDAM", 1), E("LDAI", 1), E("LDBM", 1), E("STAI", 2), E("LDAC", 0), E("STAI", 3), E("LDAC", 1), E("OPR", 3)])  # echo
    progs = {
        "echo7.bin": (echo + b"".join([E("LDBM", 1), E("LDAC", 7), E("STAI", 2), E("LDAC", 0), E("OPR", 3)]), b"QRSTUVWXYZ\n"),
        "exitm2.bin": (b"".join([E("LDBM", 1), bytes([0xFF, 0x3E]), E("STAI", 2), E("LDAC", 0), E("OPR", 3)]), b""),          # exit(-2)
        "exit256.bin": (b"".join([E("LDBM", 1), E("LDAC", 256), E("STAI", 2), E("LDAC", 0), E("OPR", 3)]), b""),               # exit(256)
        "echoeof.bin": (echo + b"".join([E("LDBM", 1), E("LDAC", 0), E("STAI", 2), E("LDAC", 0), E("OPR", 3)]), b""),           # echo at end of input
    }
    why = ""
    n = 0
    for name, (code, inp) in progs.items():
        image(name, code)
        open(os.path.join(d, "in.dat"), "wb").write(inp)
        try:
            # standard input is the (seekable) file itself, as in `hexsim p.bin < in.dat`: where the run leaves the file
            # position is how much input it consumed
            with open(os.path.join(d, "in.dat"), "rb") as fin:
                r = subprocess.run([hexsim, name], cwd=d, stdin=fin, capture_output=True, timeout=60)
                sim_pos = os.lseek(fin.fileno(), 0, os.SEEK_CUR)
        except subprocess.TimeoutExpired:
            raise hv.Infra("hexsim executable timed out on " + name)
        rc, o, e, _ = hv.run([exe, "cli", name, "in.dat", "tb.out", "5"], cwd=d, timeout=300)
        try:
            tb = json.loads(o.strip().splitlines()[-1])
        except Exception:
            raise hv.Infra("hextb main() child failed: " + (o + e)[-400:])
        out = open(os.path.join(d, "tb.out"), "rb").read()
        nl = out.find(b"\n")
        out = out[nl + 1:] if nl >= 0 else out
        n += 1
        if not tb.get("exited") or tb["status"] != (r.returncode & 0xFF):
            why = "%s: process status %s (hexsim) vs %s (hextb)" % (name, r.returncode, tb.get("status"))
        elif out != r.stdout:
            why = "%s: standard output after the banner %r (hextb) vs %r (hexsim)" % (name, out, r.stdout)
        elif tb.get("input_position") != sim_pos:
            why = "%s: input consumed from a redirected file: %s bytes (hextb) vs %s bytes (hexsim) of %d" % (name, tb.get("input_position"), sim_pos, len(inp))
        if why:
            break
    chk.native.append({"stage": "hexsim executable vs hextb.cpp's own main() in a child process: status and standard output after the banner", "programs": n, "ok": not why, "why": why})
    if why:
        p = chk.replay_path("native-cli")
        json.dump({"property": PID, "obligation": "hexsim and hextb entry points", "what": why, "how": "programs and outputs in " + d}, open(p, "w"), indent=1)
        chk.add_violation("native-cli", p, why, True)


def native_only(chk):
    native_stage(chk)


def main(chk, replay_file):
    tier = chk.tier
    unit, info = build_unit(chk)
    chk.extra["reset_constants"] = info
    chk.functions = ["hexsim::Processor::run loop body / syscall", "hex::HexSimIO::output/input", "hextb.cpp run() loop body (two halves) / handleSyscall / prologue",
                     "Verilator-generated C for verilog/*.sv"]
    chk.trusted = ["CBMC 6.11.0 + MiniSat", "Verilator 5.006 (CMake build's generator options)", "extractor rule lists (simx, tbx, vl2c)", "spec/isa.h only to state the property's quantifier (defined instruction, in-range addresses)",
                   "iostream stubs: the two HexSimIO instances see the same input oracle"]
    chk.assumptions = [
        "quantifier of the property: defined instructions (system calls 0..2), byte addresses below 800000 and word addresses below 200000, and every word a step READS has been loaded or written (then both memories agree on it): instantiated at the fetched word, the data word and the stack-pointer / argument words",
        "hextb's load() copies the whole remainder of the file (image + debug tables) into RTL memory while hexsim loads only the image: irrelevant for programs that never read unwritten memory. load.contract proves hextb's size arithmetic and copy extent (every image word present in the file lands at its word address, copy inside the memory and the staging vector; file smaller than the RTL memory assumed); istream::read / memcpy themselves are stubs",
        "whole-run equality = induction over steps from the base case (paper glue); --max-cycles, VCD tracing, the load banner and the OS's 8-bit exit status are outside the contract",
        "a READ system call does not store into the word holding the SVC instruction itself (self-modifying stack/code overlap; excluded by 'well-defined program', cf. C08)",
        "reachable-state invariant (oreg & 0xF) == 0 assumed and re-established (as C03); stack pointer word of the image below MEM words - 3 in the base case",
    ]
    if replay_file:
        print("C06: replay through the native stage (./check C06 runs it); no standalone state replay")
        return 0
    J = hv.Job
    wl = ["--unwindset", "h_base.0:%d" % (info["RESET_END"] + 2)]
    ws = ["--unwindset", "havoc_state.0:9"]
    jobs = [
        J("lockstep.step", unit, "h_lockstep", unwind=4, flags=ws, timeout=2400, stop_on_fail=True, mem_est=11,
          functions=["hexsim step", "hextb tail/head/tail/head", "handleSyscall"],
          note="all register values x memory contents x defined instructions x tick numbers (reset tail included)"),
        J("load.contract", unit, "h_tb_load", functions=["hextb load() (size arithmetic, copy extent)"]),
        J("load.canary", unit, "h_tb_load", defines=["CANARY"], kind="canary", checks=[]),
        J("lockstep.base", unit, "h_base", unwind=4, flags=wl, timeout=2400, stop_on_fail=True, mem_est=6, functions=["hextb prologue + reset window"], note="every power-on state"),
        J("lockstep.step.canary", unit, "h_lockstep", unwind=4, flags=ws, defines=["CANARY"], kind="canary", checks=[], timeout=2400, mem_est=11),
        J("lockstep.base.canary", unit, "h_base", unwind=4, flags=wl, defines=["CANARY"], kind="canary", checks=[], timeout=2400, mem_est=6),
        J("lockstep.step.cover", unit, "h_lockstep", unwind=4, flags=ws, defines=["COVER"], kind="cover", cover=True, checks=[], timeout=2400, mem_est=11),
    ]
    chk.jobs = jobs
    hv.run_jobs(jobs, chk.out)
    native_stage(chk)
    for j in jobs:
        r = j.result
        if j.kind != "proof" or r["status"] != "failed":
            continue
        for f in r["failed"]:
            name = j.name + ":" + f["name"]
            p = chk.replay_path(f["name"])
            json.dump({"property": PID, "obligation": name, "desc": f["desc"], "verifier_counterexample": f.get("cex"), "native_stage": chk.native[-1] if chk.native else None}, open(p, "w"), indent=1)
            chk.add_violation(name, p, f["desc"], False)
    return chk.finish()

"""C17 -- listings agree with the binary they describe.

Shares C05's extracted unit (checks/c05.py).  Obligations that decide C17:
  emit.step     per directive, emitProgramBin's loop body and emitProgramText's loop body run on the same object and
                state: the offset the listing prints is where the encoding starts, the size it prints is the number of
                bytes written, the operand it prints is the operand decoded from the bytes (ISA prefix rule)
  pass.chain.*  the layout offsets are chained in source order (so 'nothing but alignment and padding zeros in between')
  fixedpoint.exit / header.lemma   operands are final when listed; trailing padding
xcmp -S and hexasm --instrs both call emitProgramText on the same directive list (entry points text-checked).
"""
import hv
import c05

PID = "C17"


def main(chk, replay_file):
    # the two entry points print from the same CodeGen object that is emitted
    m = chk.manifest
    x = hv.Source("xcmp.hpp", m)
    x.span(r"(hexasm::CodeGen \w+\([^;]*\);)", "xcmp: in-process assembly through hexasm::CodeGen", 1)
    if len(__import__("re").findall(r"\.emitProgramText\(", x.text)) < 1:
        raise hv.ExtractionError("xcmp.hpp no longer prints listings through CodeGen::emitProgramText")
    a = hv.Source("hexasm.cpp", m)
    if ".emitProgramText(" not in a.text:
        raise hv.ExtractionError("hexasm.cpp no longer prints listings through CodeGen::emitProgramText")
    return c05.main(chk, replay_file, pid=PID)


def native_only(chk):
    c05.native_stage(chk, PID)

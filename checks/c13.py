"""C13 -- RTL testbench results do not depend on the power-on state.

Code under contract: hextb.cpp run() (prologue, loop condition, loop body) and handleSyscall(), extracted to C over the
Verilator-generated model of verilog/*.sv (lib/vl2c.py), incl. the generated eval_initial/eval_settle code.
Contract of the reset window: for EVERY power-on state (all Verilated fields arbitrary within their widths, memory an
arbitrary object) and every image: during the first RESET_END ticks of run()'s loop (a constant of the code, fully unwound)
  * handleSyscall is entered only from the processor's start state with memory intact,
  * no memory word changes (ghost index; in particular the image is intact),
  * at the end of the window pc = areg = breg = oreg = 0, reset is still asserted and the fetch address is 0,
  * the next tick deasserts reset, so execution begins at address 0 (C03 takes over from that settled state).
"""
import json
import os

import hv
import tbunit

PID = "C13"

HARNESS = r"""
#ifdef HEX_CBMC
static int g_syscalls_entered; static bool g_entered_outside_start; static uint32_t g_k, g_memk;
static void syscall_entry(Syscall sc) {
  g_syscalls_entered++;
  if (!(P->pc_q == 0 && P->__PVT__areg_q == 0 && P->__PVT__breg_q == 0 && P->__PVT__oreg_q == 0 && M->memory_q[g_k] == g_memk)) g_entered_outside_start = true;
}
void h_reset_window(void) {
  power_on();
  uint32_t cex_pc = P->pc_q, cex_areg = P->__PVT__areg_q, cex_breg = P->__PVT__breg_q, cex_oreg = P->__PVT__oreg_q;
  uint32_t cex_w0 = M->memory_q[cex_pc >> 2];
  /* toolchain images keep the stack-pointer word inside memory (needed only if the very first instruction is SVC) */
  uint32_t cex_sp = M->memory_q[1]; __CPROVER_assume(cex_sp < RTL_WORDS - 3);
  g_k = nondet_u32(); __CPROVER_assume(g_k < RTL_WORDS); g_memk = M->memory_q[g_k];
  uint32_t cex_k = g_k;
  g_oracle_in = nondet_int(); __CPROVER_assume(g_oracle_in >= -1 && g_oracle_in <= 255);
  tb_time = 0; tb_break = false; tb_gotFinish = false; tb_trace = nondet_bool(); tb_maxCycles = 0; verif_thrown = false;
  g_syscalls_entered = 0; g_entered_outside_start = false;
  tb_prologue();
  for (unsigned it = 0; it < RESET_END; it++) {
    if (!TB_RUN_COND || tb_break) break;
    tb_tick();
  }
  __CPROVER_assert(!g_entered_outside_start, "C13: no system call serviced before reset has put the processor into its start state");
  __CPROVER_assert(tb_break || M->memory_q[g_k] == g_memk, "C13: no memory word changes during the reset window (image intact)");
  __CPROVER_assert(tb_break || (P->pc_q == 0 && P->__PVT__areg_q == 0 && P->__PVT__breg_q == 0 && P->__PVT__oreg_q == 0), "C13: start state pc=areg=breg=oreg=0 at the end of the reset window");
  __CPROVER_assert(tb_break || (tb_time == RESET_END && S.TOP.i_clk == 0), "C13: window ends on a falling edge after RESET_END ticks");
  __CPROVER_assert(!verif_thrown, "C13: no invalid system call reported during the reset window");
  __CPROVER_assert(!tb_break || (g_syscalls_entered == 1 && !g_entered_outside_start), "C13: the run can only end inside the window by an exit call issued from the start state");
  if (!tb_break && TB_RUN_COND) {
    /* first tick after the window: reset is released on this rising edge and the instruction at address 0 executes */
    uint32_t byte0 = M->memory_q[0] & 0xFF;
    tb_tick();
    __CPROVER_assert(S.TOP.i_rst == 0 && S.TOP.i_clk == 1, "C13: reset released on the first rising edge after the window");
    isa_state s = { 0, 0, 0, 0, true, 0 }; isa_write w; isa_event ev; isa_status st;
    /* registers after that edge are the ISA successor of the start state (for non-memory, non-SVC first instructions checked here; all cases: C03) */
    if ((byte0 >> 4) == I_LDAC) __CPROVER_assert(P->__PVT__areg_q == (byte0 & 0xF) && P->pc_q == 1, "C13: execution begins at address 0");
    if ((byte0 >> 4) == I_BR) __CPROVER_assert(P->pc_q == 1 + (byte0 & 0xF), "C13: execution begins at address 0 (branch)");
  }
#ifdef COVER
  __CPROVER_cover(tb_break); __CPROVER_cover(!tb_break && cex_pc != 0 && cex_areg != 0);
  __CPROVER_cover(!tb_break && ((cex_w0 >> ((cex_pc & 3) << 3)) & 0xFF) == 0xD3); __CPROVER_cover(!tb_break && ((cex_w0 >> ((cex_pc & 3) << 3)) & 0xF0) == 0x20);
#endif
#ifdef CANARY
  __CPROVER_assert(0, "canary: harness end reachable");
#endif
}

/* hextb load() from EVERY power-on memory: afterwards each word of the RTL memory is a function of the file alone (the
   file's word where the file has one, zero elsewhere).  File operations are stubs; the two bulk operations on the RTL
   memory are modelled on the ghost word g_k.  With the reset window above (no word changes, registers reset) the whole
   machine state at the first executed instruction is independent of the power-on state. */
static size_t g_file_size; static uint32_t g_file_header, g_fileword_k; static size_t g_read_bytes;
#define FILE_OPEN() ((void)0)
#define FILE_SIZE() ((long)g_file_size)
static inline void FILE_READ_U32(unsigned *dst) { *dst = g_file_header; }
#define FILE_READ_BUFFER(n) do { g_read_bytes = (n); } while (0)   /* istream::read into the zero-initialised staging vector */
#define TB_MEMZERO_DUT(n) do { if (4 * (size_t)g_k < (size_t)(n)) M->memory_q[g_k] = 0; } while (0)                       /* std::memset(memory_q.data(), 0, n) */
#define TB_MEMCPY_TO_DUT(n) do { if (4 * (size_t)g_k + 4 <= (size_t)(n)) M->memory_q[g_k] = (4 * (size_t)g_k < g_read_bytes) ? g_fileword_k : 0; } while (0) /* std::memcpy(memory_q.data(), buffer.data(), n) */
#define TB_BANNER(n) ((void)(n))
TB_LOAD_FN
void h_load_determined(void) {
  size_t present = nondet_size(); g_file_header = nondet_u32(); g_fileword_k = nondet_u32();    /* the file: bytes after the header, header word, its word at index g_k (zero padded) */
  __CPROVER_assume(present <= 4u * (size_t)RTL_WORDS - 4);
  g_file_size = 4 + present;
  power_on();
  g_k = nondet_u32(); __CPROVER_assume(g_k < RTL_WORDS);
  uint32_t cex_k = g_k, cex_poweron_k = M->memory_q[g_k];
  tb_load();
  size_t rounded = (present + 3) & ~(size_t)3;
  uint32_t expected = (4 * (size_t)g_k < rounded) ? g_fileword_k : 0;
  __CPROVER_assert(M->memory_q[g_k] == expected, "C13 load: after load() every word of the RTL memory is determined by the file (its word, zero beyond it), whatever the power-on contents");
#ifdef CANARY
  __CPROVER_assert(0, "canary: harness end reachable");
#endif
}
#endif
"""


def build_unit(chk):
    text, info = tbunit.unit_text(chk, syscall_entry_hook="syscall_entry(sc)")
    text = text.replace("#define TB_SYSCALL_ENTRY(sc) syscall_entry(sc)\n", "static void syscall_entry(Syscall sc);\n#define TB_SYSCALL_ENTRY(sc) syscall_entry(sc)\n")
    import tbx
    return chk.write("c13_unit.c", text + HARNESS.replace("TB_LOAD_FN", tbx.load_fn(chk.manifest))), info


def native(chk):
    """hextb.cpp itself (its own load()/run(), main renamed) linked with a replay driver over the natively Verilated model"""
    mdir = os.path.join(chk.out, "vl_native")
    os.makedirs(mdir, exist_ok=True)
    srcs = [os.path.join(hv.REPO, s) for s in tbunit.SOURCES]
    tb = os.path.join(hv.REPO, "hextb.cpp")
    if not os.path.exists(tb):
        raise hv.ExtractionError("hextb.cpp missing")
    cmd = ["verilator", "--cc", "--exe", "--build", "-j", "8", "--top-module", "hex", "--prefix", "Vhex_pkg", "--trace", "-Wno-fatal", "-Wno-lint",  # same generator options as the repository's CMake build (verilate(... TRACE))
          
           "-CFLAGS", "-O1 -w -std=c++17 -DNDEBUG -Dmain=hextb_main -I%s -I%s" % (hv.REPO, os.path.join(hv.VERIF, "spec")), "--Mdir", mdir, "-o", "c13_native"] + srcs + \
          [tb, os.path.join(hv.REPO, "hex.cpp"), os.path.join(hv.VERIF, "native", "c13_native.cpp")]
    rc, o, e, secs = hv.run(cmd, timeout=900)
    if rc != 0:
        raise hv.Infra("native hextb build failed: " + (e or o)[-2500:])
    return os.path.join(mdir, "c13_native")


def replay_state(exe, st, cwd):
    if st.get("readword"):
        args = [exe, "readword", str(st["readword"])]
        rc, o, e, _ = hv.run(args, timeout=300, cwd=cwd)
        try:
            return json.loads(o.strip().splitlines()[-1])
        except Exception:
            return {"ok": None, "error": (o + e)[-600:]}
    args = [exe, "replay"] + [str(st[k]) for k in ("pc", "areg", "breg", "oreg", "w0", "k", "sp")]
    rc, o, e, _ = hv.run(args, timeout=120, cwd=cwd)
    try:
        return json.loads(o.strip().splitlines()[-1])
    except Exception:
        return {"ok": None, "error": (o + e)[-600:]}


def native_stage(chk):
    exe = native(chk)
    n = 300 if chk.tier == "quick" else 20000
    rc, o, e, secs = hv.run([exe, "sweep", str(chk.seed), str(n)], timeout=3000, cwd=chk.out)
    try:
        sw = json.loads(o.strip().splitlines()[-1])
    except Exception:
        raise hv.Infra("native hextb sweep failed: " + (o + e)[-800:])
    sw["stage"] = ("hextb.cpp's own load()/run() on the natively Verilated model from planted adversarial and seeded random power-on states, incl. programs that exit with a "
                   "word they never wrote (directly behind the image and anywhere): outcome must equal the clean-state outcome")
    sw["secs"] = round(secs, 1)
    chk.native.append(sw)
    if sw.get("mismatches", 0):
        p = chk.replay_path("native")
        json.dump({"property": PID, "obligation": "native power-on sweep", "state": sw["first"], "real_code_result": sw}, open(p, "w"), indent=1)
        chk.add_violation("native-sweep", p, "hextb outcome depends on the power-on state: %s" % sw.get("why"), True)
    return exe


def native_only(chk):
    native_stage(chk)


def main(chk, replay_file):
    tier = chk.tier
    unit, info = build_unit(chk)
    chk.extra["reset_constants"] = info
    chk.functions = ["hextb.cpp run() (prologue, loop condition, loop body)", "hextb.cpp handleSyscall()", "hex::HexSimIO::output/input",
                     "Verilator-generated C for verilog/*.sv incl. eval_initial/eval_settle"]
    chk.trusted = ["CBMC 6.11.0 + MiniSat", "Verilator 5.006 translation and scheduling are the semantics of the RTL", "lib/vl2c.py and lib/tbx.py rule lists",
                   "VerilatedContext::time/timeInc modelled by a tick counter; gotFinish() false (the design has no $finish)"]
    chk.assumptions = ["power-on state over-approximated: every Verilated field arbitrary within its declared width, memory arbitrary (covers randReset(2) with any seed and planted states)",
                       "the stack-pointer word of the image is below MEM_DEPTH-3 (only matters if the image's first instruction is SVC)",
                       "the reset window is RESET_END ticks of run()'s loop, a constant of the code: fully unwound, unwinding assertions on; --max-cycles off",
                       "from the settled start state onwards the run is a function of image and input: C03 (per clock) and C06 (system-call shim)"]
    if replay_file:
        exe = native(chk)
        d = json.load(open(replay_file))
        r = replay_state(exe, d["state"], chk.out)
        print(json.dumps(r))
        return 0 if r.get("ok") else 1
    J = hv.Job
    uw = 4
    wl = ["--unwindset", "h_reset_window.0:%d" % (info["RESET_END"] + 2)]
    jobs = [
        J("reset_window.contract", unit, "h_reset_window", unwind=uw, flags=wl, timeout=1500, stop_on_fail=True, mem_est=6, mem_gb=32, functions=["hextb run()", "handleSyscall", "Vhex_eval_step"], note="every power-on state x every memory content"),
        J("load.determined", unit, "h_load_determined", functions=["hextb load()"], note="every power-on memory x every file: memory after load() is a function of the file"),
        J("load.canary", unit, "h_load_determined", defines=["CANARY"], kind="canary", checks=[]),
        J("reset_window.canary", unit, "h_reset_window", unwind=uw, flags=wl, defines=["CANARY"], kind="canary", checks=[]),
        J("reset_window.cover", unit, "h_reset_window", unwind=uw, flags=wl, defines=["COVER"], kind="cover", cover=True, checks=[]),
    ]
    if tier == "thorough":
        jobs.append(J("reset_window.contract@kissat", unit, "h_reset_window", unwind=uw, flags=wl, solver=["--external-sat-solver", "kissat"], stop_on_fail=True, timeout=3000, note="second back end: kissat (CBMC's SMT2 conversion aborts with map::at on the Verilator units, so cvc5/z3 are unusable here)"))
    chk.jobs = jobs
    hv.run_jobs(jobs, chk.out)
    exe = native_stage(chk)
    for j in jobs:
        r = j.result
        if j.kind != "proof" or r["status"] != "failed":
            continue
        for f in r["failed"]:
            cex = f.get("cex", {})
            name = j.name + ":" + f["name"]
            p = chk.replay_path(f["name"])
            st = None
            try:
                st = {"pc": hv.parse_c_int(cex["cex_pc"]), "areg": hv.parse_c_int(cex["cex_areg"]), "breg": hv.parse_c_int(cex["cex_breg"]), "oreg": hv.parse_c_int(cex["cex_oreg"]),
                      "w0": hv.parse_c_int(cex["cex_w0"]), "k": hv.parse_c_int(cex.get("cex_k", "0")), "sp": hv.parse_c_int(cex.get("cex_sp", "0"))}
            except (KeyError, ValueError):
                pass
            if j.name.startswith("load."):
                try:
                    st = {"readword": hv.parse_c_int(cex["cex_k"])}
                except (KeyError, ValueError):
                    st = {"readword": 100}
                rr = replay_state(exe, st, chk.out)
                if rr.get("ok") is False:
                    json.dump({"property": PID, "obligation": name, "desc": f["desc"], "state": st, "real_code_result": rr, "how": "./check C13 --replay " + p}, open(p, "w"), indent=1)
                    chk.add_violation(name, p, "%s; real hextb: %s, %s under seed %s" % (f["desc"], rr.get("program"), rr.get("why"), rr.get("seed")), True)
                else:
                    # the obligation states one sufficient mechanism (load() overwrites the whole array); other mechanisms are
                    # possible, so without a failing run on the real testbench this is no verdict
                    chk.undecided.append("%s %s (no run of the real testbench depends on the power-on memory: another mechanism may define the memory)" % (name, f["desc"]))
                continue
            if st is not None:
                rr = replay_state(exe, st, chk.out)
                if rr.get("ok") is False:
                    json.dump({"property": PID, "obligation": name, "desc": f["desc"], "state": st, "real_code_result": rr, "how": "./check C13 --replay " + p}, open(p, "w"), indent=1)
                    chk.add_violation(name, p, "%s; real hextb run(): %s" % (f["desc"], rr.get("why")), True)
                    continue
            json.dump({"property": PID, "obligation": name, "desc": f["desc"], "verifier_counterexample": cex, "replay_attempt": st}, open(p, "w"), indent=1)
            chk.add_violation(name, p, f["desc"], False)
    return chk.finish()

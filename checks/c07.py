"""C07 -- compile-time evaluation agrees with run-time evaluation.

Two halves, both on real code:
 1. the folder: the two `switch`es of xcmp's ConstProp::visitPost(BinaryOpExpr/UnaryOpExpr) extracted as fold_bin / fold_un;
 2. the run-time side: the REAL xcmp (built from the working tree on every run) compiles generated X sources; each emitted
    image is loaded as a constant array (banked memory) and executed on the extracted hexsim step()/syscall() with the
    operand variables' DATA words SYMBOLIC (cbmc --paths lifo, loop-free programs, run loop unwound past the longest
    path with unwinding assertions, plus "exited within the bound", "no undefined instruction").
Obligations
  op.<OP>       for all 2^64 operand pairs (2^32 unary): exit value of `0(a OP b)` with a, b read from variables
                == fold(OP, a, b)   (and/or/~ over boolean operands, as the property's quantifier says)
  shape.<k>     `v OP (c1 OP2 c2)`, `(c1 OP2 c2) OP v`, `v OP c`, `c OP v`, `val` names: the image compiled with the constants
                as literals behaves like the image compiled with the same constants held in variables, for ALL v
                (embedded constants from a boundary list: BOUNDED in that dimension)
Known finding (KNOWN_FINDINGS.txt key relational-difference-overflow): folded <,<=,>,>= use a true signed comparison, the
run-time code tests the sign of the wrapped difference: they differ exactly when l - r overflows.  Split obligation.
"""
import json
import os
import re

import hv
import asmx
import simunit
import simx

PID = "C07"
PF = ["--paths", "lifo", "--max-field-sensitivity-array-size", "1024", "--no-signed-overflow-check"]
KNOWN_KEY = "relational-difference-overflow"

BANKED = r"""
/* --- banked representation of the one flat 200000-word memory (same address space): low bank = the image's words
   (small, field sensitive), high bank = everything above (symbolic-size object, zero as after construction) --- */
#define MAXIMG 256
static uint32_t lowbank[MAXIMG]; static size_t low_words; static uint32_t *highbank;
uint32_t *memory; /* unused in this representation */
static inline uint32_t RD(size_t a) { __CPROVER_assert(a < MEMORY_SIZE_WORDS, "hexsim memory index within the simulated memory"); return a < low_words ? lowbank[a] : highbank[a - low_words]; }
static inline void WR_(size_t a, uint32_t v) { __CPROVER_assert(a < MEMORY_SIZE_WORDS, "hexsim memory store index within the simulated memory"); if (a < low_words) lowbank[a] = v; else highbank[a - low_words] = v; }
#define WR(a, v) WR_((a), (v))
"""

HARNESS_HEAD = r"""
#ifdef HEX_CBMC
size_t nondet_size(void); uint32_t nondet_u32(void); int nondet_int(void);
#define MAXSTEPS 400
static int run_image(const uint32_t *img, size_t words) {
  /* hexsim::Processor constructor + load (C12): registers 0, memory = image then zeros */
  __CPROVER_assert(words <= MAXIMG, "image fits the low bank");
  for (size_t i = 0; i < MAXIMG; i++) lowbank[i] = i < words ? img[i] : 0;
  low_words = words;
  size_t n = nondet_size(); __CPROVER_assume(n >= MEMORY_SIZE_WORDS && n <= 2 * MEMORY_SIZE_WORDS);
  highbank = malloc(n * 4); __CPROVER_assume(highbank != NULL);
  __CPROVER_array_set(highbank, 0);
  pc = 0; areg = 0; breg = 0; oreg = 0; running = true; tracing = false; truncateInputs = true; exitCode = 0; cycles = 0; maxCycles = 0; lastPC = 0;
  verif_thrown = false; g_io_calls = 0;
  return 0;
}
static void exec(void) {
  for (int s = 0; s < MAXSTEPS && running && !verif_thrown; s++) step();
  __CPROVER_assert(!verif_thrown, "C07: no undefined instruction or invalid system call executed");
  __CPROVER_assert(!running, "C07: program exits within the bound");
  __CPROVER_assert(g_io_calls == 0, "C07: expression evaluation performs no I/O");
}
"""


def xcmp_token_enum(manifest):
    src = hv.Source("xcmp.hpp", manifest)
    body, _, _ = src.block_after(r"\benum class Token \{", "xcmp enum Token")
    names = [x.strip() for x in hv.strip_comments(body).strip("{} \n").split(",") if x.strip()]
    items = []
    for n in names:
        m = re.fullmatch(r"(\w+)(?:\s*=\s*(\d+))?", n)
        if not m:
            raise hv.ExtractionError("xcmp Token enumerator not understood: %r" % n)
        items.append("XT_" + m.group(1) + (" = " + m.group(2) if m.group(2) else ""))
    return "typedef enum { %s } XToken;\n" % ", ".join(items)


def folder(manifest):
    """the two switches of ConstProp -> fold_bin / fold_un (verbatim case arms)"""
    src = hv.Source("xcmp.hpp", manifest)
    a, e = src.anchor(r"class ConstProp : public AstVisitor \{")
    bb, _, _ = src.block_after(r"void visitPost\(BinaryOpExpr &expr\) \{", "ConstProp::visitPost(BinaryOpExpr)", start=e, unique=False)
    m = re.search(r"int (\w+);\s*switch \(expr\.getOp\(\)\) \{", bb)   # the local's name is free
    if not m or not re.search(r"if \(LHS->isConst\(\) && RHS->isConst\(\)\) \{", bb):
        raise hv.ExtractionError("ConstProp(BinaryOpExpr): folding switch not found")
    lb = m.end() - 1
    rb = hv.match_close(bb, lb)
    res = m.group(1)
    sw = hv.rewrite(bb[lb:rb + 1], [
        (r"LHS->getValue\(\)", "l", 10), (r"RHS->getValue\(\)", "r", 10), (r"\bToken::(\w+)", r"XT_\1", 10),
        (r"throw SemanticTokenError\([^;]*\);", "{ VERIF_THROW(0); return 0; }", 1, 1),
    ], "fold_bin", manifest)
    after = hv.strip_comments(bb[rb + 1:]).strip()
    if not after.startswith("expr.setValue(%s);" % res):
        raise hv.ExtractionError("ConstProp(BinaryOpExpr): expected expr.setValue(%s) after the switch" % res)
    hv.leftover_check(sw, "fold_bin")
    out = "static int fold_bin(XToken op, int l, int r) {\n  int %s;\n  switch (op) %s\n  return %s;\n}\n" % (res, sw, res)
    ub, _, _ = src.block_after(r"void visitPost\(UnaryOpExpr &expr\) \{", "ConstProp::visitPost(UnaryOpExpr)", start=e, unique=False)
    m = re.search(r"int (\w+);\s*switch \(expr\.getOp\(\)\) \{", ub)
    if not m:
        raise hv.ExtractionError("ConstProp(UnaryOpExpr): folding switch not found")
    lb = m.end() - 1
    rb = hv.match_close(ub, lb)
    sw = hv.rewrite(ub[lb:rb + 1], [
        (r"element->getValue\(\)", "e", 2), (r"\bToken::(\w+)", r"XT_\1", 2),
        (r"throw SemanticTokenError\([^;]*\);", "{ VERIF_THROW(0); return 0; }", 1, 1),
    ], "fold_un", manifest)
    hv.leftover_check(sw, "fold_un")
    after = hv.strip_comments(ub[rb + 1:]).strip()
    if not after.startswith("expr.setValue(%s);" % m.group(1)):
        raise hv.ExtractionError("ConstProp(UnaryOpExpr): expected expr.setValue(%s) after the switch" % m.group(1))
    out += "static int fold_un(XToken op, int e) {\n  int %s;\n  switch (op) %s\n  return %s;\n}\n" % (m.group(1), sw, m.group(1))
    return out


BOUNDARY = [0, 1, -1, 15, 16, -16, -17, 255, 256, -256, 65535, 65536, -65535, -65536, -65537, 65537, 2147483647, -2147483647, 1000000, -1000000]
BIN_OPS = [("PLUS", "+"), ("MINUS", "-"), ("EQ", "="), ("NE", "~="), ("LS", "<"), ("LE", "<="), ("GR", ">"), ("GE", ">="), ("AND", "and"), ("OR", "or")]
REL = {"LS", "LE", "GR", "GE"}


def lit(c):
    return "(%d)" % c if c < 0 else "%d" % c


def build_xcmp(chk):
    exe = os.path.join(chk.out, "xcmp_real")
    hv.build_native(os.path.join(hv.REPO, "xcmp.cpp"), exe, extra=[os.path.join(hv.REPO, "hex.cpp")], opt="-O0", hooks=False)
    return exe


def compile_x(chk, xcmp, name, src):
    d = os.path.join(chk.out, "x", name)
    os.makedirs(d, exist_ok=True)
    f = os.path.join(d, "p.x")
    open(f, "w").write(src)
    rc, o, e, _ = hv.run([xcmp, f], cwd=d, timeout=60)
    if rc != 0 or not os.path.exists(os.path.join(d, "a.out")):
        raise hv.Infra("xcmp failed on %s: %s" % (src, (o + e)[-400:]))
    rc, lst, e, _ = hv.run([xcmp, f, "-S"], cwd=d, timeout=60)
    raw = open(os.path.join(d, "a.out"), "rb").read()
    words = int.from_bytes(raw[0:4], "little")
    img = [int.from_bytes(raw[4 + 4 * i:8 + 4 * i], "little") for i in range(words)]
    labs = {}
    for l in lst.splitlines():
        m = re.match(r"^(0x[0-9a-f]+|0+)\s+(lab\d+)\s+\(0 bytes\)", l)
        if m:
            labs[m.group(2)] = int(m.group(1), 16)
    return img, labs, lst


def c_array(name, img):
    return "static const uint32_t %s[%d] = {%s};\n" % (name, len(img), ", ".join("0x%xu" % w for w in img))


def programs(tier, seed):
    """returns list of (name, kind, data).  kind 'op': (opname, X source, nvars); kind 'shape': (literal source, variable source, constants)"""
    import random
    rng = random.Random(seed)
    progs = []
    for tok, sym in BIN_OPS:
        progs.append(("op." + tok, "op", (tok, "var a; var b;\nproc main() is 0(a %s b)\n" % sym, 2)))
    progs.append(("op.NOT", "op", ("NOT", "var a;\nproc main() is 0(~a)\n", 1)))
    progs.append(("op.NEG", "op", ("MINUS", "var a;\nproc main() is 0(-a)\n", 1)))
    consts = list(BOUNDARY) + [rng.randint(-2**31 + 1, 2**31 - 1) for _ in range(4)]
    shapes = []
    outer = [("+", "PLUS"), ("-", "MINUS")]
    inner = [("+", "PLUS"), ("-", "MINUS"), ("<", "LS"), ("=", "EQ"), ("<=", "LE"), ("~=", "NE"), (">", "GR"), (">=", "GE")]
    nshape = 40 if tier == "quick" else 320
    k = 0
    while len(shapes) < nshape:
        o1 = outer[k % 2]
        o2 = inner[(k // 2) % len(inner)]
        c1 = consts[(k * 7 + 3) % len(consts)]
        c2 = consts[(k * 5 + 1) % len(consts)]
        form = k % 8
        if o2[1] in ("LS", "LE", "GR", "GE") and not (-2**31 <= c1 - c2 < 2**31):
            c2 = 0  # keep the known-finding class (difference overflow) out of the shape family
        if form == 0:
            L = "var v;\nproc main() is 0(v %s (%s %s %s))\n" % (o1[0], lit(c1), o2[0], lit(c2))
            V = "var v; var x; var y;\nproc main() is 0(v %s (x %s y))\n" % (o1[0], o2[0])
            cs = [c1, c2]
        elif form == 1:
            L = "var v;\nproc main() is 0((%s %s %s) %s v)\n" % (lit(c1), o2[0], lit(c2), o1[0])
            V = "var v; var x; var y;\nproc main() is 0((x %s y) %s v)\n" % (o2[0], o1[0])
            cs = [c1, c2]
        elif form == 2:
            L = "var v;\nproc main() is 0(v %s %s)\n" % (o1[0], lit(c1))
            V = "var v; var x;\nproc main() is 0(v %s x)\n" % o1[0]
            cs = [c1]
        elif form == 3:
            L = "var v;\nproc main() is 0(%s %s v)\n" % (lit(c1), o1[0])
            V = "var v; var x;\nproc main() is 0(x %s v)\n" % o1[0]
            cs = [c1]
        elif form == 4:
            L = "val k = %s;\nvar v;\nproc main() is 0(v %s k)\n" % (lit(c1), o1[0])
            V = "var v; var x;\nproc main() is 0(v %s x)\n" % o1[0]
            cs = [c1]
        elif form == 5:
            L = "var v;\nproc main() is 0(v %s (-(%s)))\n" % (o1[0], lit(c1)) if c1 != -2**31 else None
            V = "var v; var x;\nproc main() is 0(v %s (-x))\n" % o1[0]
            cs = [c1]
        elif form == 7:
            L = "val k = %s %s %s;\nvar v;\nproc main() is 0(v %s k)\n" % (lit(c1), o2[0], lit(c2), o1[0])
            V = "var v; var x; var y;\nproc main() is 0(v %s (x %s y))\n" % (o1[0], o2[0])
            cs = [c1, c2]
        else:
            L = "var v;\nproc main() is 0((v %s %s) %s (%s %s %s))\n" % (o1[0], lit(c2), o1[0], lit(c1), o2[0], lit(c2))
            V = "var v; var x; var y;\nproc main() is 0((v %s y) %s (x %s y))\n" % (o1[0], o1[0], o2[0])
            cs = [c1, c2]
        k += 1
        if L is None:
            continue
        shapes.append(("shape.%d" % len(shapes), "shape", (L, V, cs)))
    # one constant side for EVERY binary operator (the rewrites of ~=, >=, >, <= and the zero special cases of = and <)
    mixed = []
    small = [0, 1, -1, 2, 65535, 65536, -65536, 2147483647, -2147483647]
    for tok, sym in BIN_OPS:
        cs_list = [0, 1] if tok in ("AND", "OR") else (small if tier == "thorough" else [0, 1, -1, 65536, -2147483647])
        for c in cs_list:
            for side in ("r", "l"):
                if side == "r":
                    L = "var v;\nproc main() is 0(v %s %s)\n" % (sym, lit(c)); V = "var v; var x;\nproc main() is 0(v %s x)\n" % sym
                else:
                    L = "var v;\nproc main() is 0(%s %s v)\n" % (lit(c), sym); V = "var v; var x;\nproc main() is 0(x %s v)\n" % sym
                mixed.append(("mixed.%s.%s.%d" % (tok, side, len(mixed)), "shape", (L, V, [c], tok in ("AND", "OR"))))
        # the result used as a number inside a larger expression
        c = cs_list[0]
        L = "var v;\nproc main() is 0((v %s %s) + 40)\n" % (sym, lit(c)); V = "var v; var x;\nproc main() is 0((v %s x) + 40)\n" % sym
        mixed.append(("mixed.%s.n.%d" % (tok, len(mixed)), "shape", (L, V, [c], tok in ("AND", "OR"))))
    # a constant on one side, on the other a sub-expression that needs a register of its own (compound expression, function
    # call -- see below): operand scheduling must not depend on whether the other operand is known at compile time
    for tok, sym in BIN_OPS:
        boolop = tok in ("AND", "OR")
        comp = "(~v)" if boolop else "(v + 3)"
        for c in ([0, 1] if boolop else ([5, -65537] if tier == "quick" else [0, 5, -1, 65536, -65537, 2147483647])):
            for side in ("r", "l"):
                if side == "l":
                    L = "var v;\nproc main() is 0(%s %s %s)\n" % (lit(c), sym, comp); V = "var v; var x;\nproc main() is 0(x %s %s)\n" % (sym, comp)
                else:
                    L = "var v;\nproc main() is 0(%s %s %s)\n" % (comp, sym, lit(c)); V = "var v; var x;\nproc main() is 0(%s %s x)\n" % (comp, sym)
                mixed.append(("mixed.%s.c%s.%d" % (tok, side, len(mixed)), "shape", (L, V, [c], boolop)))
        # (operands that are function calls were tried and dropped: the return through BRB makes the program counter
        #  symbolic for the path-exploring back end, every such job timed out at 600 s)
    for c in (0, 1, 5, -3, 65536):
        mixed.append(("mixed.NOTNEG.%d" % len(mixed), "shape", ("val k = %s;\nvar v;\nproc main() is 0(v + ((~k) + (-k)))\n" % lit(c), "var v; var x;\nproc main() is 0(v + ((~x) + (-x)))\n", [c], False)))
    return progs + shapes + mixed


def var_words(labs, n, what):
    ws = []
    for i in range(n):
        k = "lab%d" % i
        if k not in labs or labs[k] % 4:
            raise hv.Infra("cannot locate variable %d of %s in the -S listing (labels: %s)" % (i, what, labs))
        ws.append(labs[k] // 4)
    return ws


def main(chk, replay_file):
    tier = chk.tier
    m = chk.manifest
    chk.functions = ["xcmp::ConstProp::visitPost(BinaryOpExpr) folding switch", "xcmp::ConstProp::visitPost(UnaryOpExpr) folding switch",
                     "hexsim::Processor::run loop body / syscall (run-time side, extracted)", "real xcmp (built from the working tree) as the generator of the run-time code"]
    chk.trusted = ["CBMC 6.11.0 + MiniSat (--paths lifo)", "extractor rules (simx, checks/c07.py folder())", "the xcmp binary built from /repo is the compiler under test (its output is data for the harness)",
                   "hexsim loads the image at word 0 and zeroes the rest (C12); hexsim step == ISA (C02)", "variables are located through the labN lines of xcmp -S"]
    chk.assumptions = [
        "machine arithmetic: the folder's +, - and unary - are evaluated in int; signed overflow there is UB by the standard but wraps under the repository's compilers: this unit is verified with two's-complement wrap (signed-overflow check off for fold_bin/fold_un only)",
        "and / or / ~ over boolean operands (0/1), as in the property's quantifier",
        "expression shapes and embedded constants are a finite family (boundary list + VERIF_SEED-chosen constants): BOUNDED in that dimension; variable operands are fully symbolic",
        "programs are loop-free: the run loop is unwound past the longest path with unwinding assertions and an 'exited within the bound' obligation",
        "known finding (not an assumption): relational operators differ when the operand difference overflows; see KNOWN_FINDINGS.txt",
    ]
    if replay_file:
        d = json.load(open(replay_file))
        xcmp = build_xcmp(chk)
        r = native_replay(chk, xcmp, d)
        print(json.dumps(r))
        return 0 if r.get("ok") else 1
    xcmp = build_xcmp(chk)
    progs = programs(tier, chk.seed)
    base = simunit.unit_text(chk, accessors=BANKED) + xcmp_token_enum(m) + folder(m) + HARNESS_HEAD
    J = hv.Job
    jobs = []
    info = {}
    known = hv.known_findings(PID)
    for name, kind, data in progs:
        if kind == "op":
            tok, src, nv = data
            img, labs, lst = compile_x(chk, xcmp, name, src)
            ws = var_words(labs, nv, name)
            body = c_array("IMG", img)
            body += "void h_prog(void) {\n  run_image(IMG, %d);\n" % len(img)
            body += "  uint32_t cex_a = nondet_u32(); uint32_t cex_b = %s;\n" % ("nondet_u32()" if nv == 2 else "0")
            if tok in ("AND", "OR", "NOT"):
                body += "  __CPROVER_assume(cex_a <= 1 && cex_b <= 1); /* boolean-typed operands */\n"
            body += "  lowbank[%d] = cex_a;\n" % ws[0]
            if nv == 2:
                body += "  lowbank[%d] = cex_b;\n" % ws[1]
            body += "  exec();\n"
            if name == "op.NOT":
                body += "  int folded = fold_un(XT_NOT, (int)cex_a);\n"
            elif name == "op.NEG":
                body += "  int folded = fold_un(XT_MINUS, (int)cex_a);\n"
            else:
                body += "  int folded = fold_bin(XT_%s, (int)cex_a, (int)cex_b);\n" % tok
            if tok in REL:
                body += "  long long d = (long long)(int)cex_a - (long long)(int)cex_b; if (XT_%s == XT_GR || XT_%s == XT_LE) d = (long long)(int)cex_b - (long long)(int)cex_a;\n" % (tok, tok)
                body += "  bool ovf = d < -2147483648LL || d > 2147483647LL;\n"
                body += "  __CPROVER_assert(ovf || exitCode == folded, \"C07: run-time %s equals the folded %s when the operand difference does not overflow\");\n" % (tok, tok)
                body += "#ifdef KNOWN_CLASS\n  __CPROVER_assert(!ovf || exitCode == folded, \"C07 known-class: run-time %s equals the folded %s when the operand difference overflows\");\n#endif\n" % (tok, tok)
            else:
                body += "  __CPROVER_assert(exitCode == folded, \"C07: run-time %s equals the folded %s for all operand values\");\n" % (tok, tok)
            body += "#ifdef CANARY\n  __CPROVER_assert(0, \"canary: harness end reachable\");\n#endif\n}\n#endif\n"
            unit = chk.write("c07_%s.c" % name, base + body)
            info[name] = {"source": src, "vars": ws, "words": len(img)}
            jobs.append(J(name, unit, "h_prog", unwind=401, flags=PF, timeout=600,
                          checks=[c for c in hv.CBMC_CHECKS if c != "--signed-overflow-check"], functions=["fold_bin/fold_un", "compiled image on step()"],
                          note="all operand values; run-time code = real xcmp output"))
            if tok in REL:
                jobs.append(J(name + ".known-class", unit, "h_prog", unwind=401, flags=PF, defines=["KNOWN_CLASS"], timeout=600, kind="known",
                              checks=[], note="split obligation for the known finding %s" % KNOWN_KEY))
            if name in ("op.PLUS", "op.LS"):
                jobs.append(J(name + ".canary", unit, "h_prog", unwind=401, flags=PF, defines=["CANARY"], kind="canary", checks=[], timeout=600))
        else:
            L, V, cs = data[0], data[1], data[2]
            boolv = len(data) > 3 and data[3]
            imgL, labsL, _ = compile_x(chk, xcmp, name + ".lit", L)
            imgV, labsV, _ = compile_x(chk, xcmp, name + ".var", V)
            wl = var_words(labsL, 1, name)
            wv = var_words(labsV, 1 + len(cs), name)
            body = c_array("IMGL", imgL) + c_array("IMGV", imgV)
            body += "void h_prog(void) {\n  uint32_t cex_v = nondet_u32();\n"
            if boolv:
                body += "  __CPROVER_assume(cex_v <= 1); /* boolean-typed operand */\n"
            body += "  run_image(IMGL, %d); lowbank[%d] = cex_v; exec(); int exitL = exitCode;\n" % (len(imgL), wl[0])
            body += "  run_image(IMGV, %d); lowbank[%d] = cex_v;%s exec(); int exitV = exitCode;\n" % (
                len(imgV), wv[0], "".join(" lowbank[%d] = (uint32_t)(%dLL);" % (wv[1 + i], c) for i, c in enumerate(cs)))
            body += "  __CPROVER_assert(exitL == exitV, \"C07: program with constants folded at compile time behaves like the program with the same values supplied through variables\");\n"
            body += "#ifdef CANARY\n  __CPROVER_assert(0, \"canary: harness end reachable\");\n#endif\n}\n#endif\n"
            unit = chk.write("c07_%s.c" % name, base + body)
            info[name] = {"literal": L, "variables": V, "constants": cs}
            jobs.append(J(name, unit, "h_prog", unwind=401, flags=PF, timeout=600, checks=[c for c in hv.CBMC_CHECKS if c != "--signed-overflow-check"],
                          bounded=True, functions=["compiled images (literal / variable variants) on step()"], note="all v; embedded constants %s (bounded family)" % cs))
    chk.extra["program_sources"] = info
    chk.jobs = jobs
    hv.run_jobs(jobs, chk.out)
    call_stage(chk, xcmp)
    # verdict
    for j in jobs:
        r = j.result
        if j.kind == "known":
            if r["status"] == "failed":
                if KNOWN_KEY in known:
                    if KNOWN_KEY not in chk.known_printed:
                        print("KNOWN-FINDING: property=%s key=%s %s" % (PID, KNOWN_KEY, known[KNOWN_KEY]))
                        chk.known_printed.append(KNOWN_KEY)
                else:
                    f = r["failed"][0]
                    rr = native_replay(chk, xcmp, {"program": info[j.name.replace(".known-class", "")], "cex": f.get("cex", {})})
                    p = chk.replay_path(j.name)
                    json.dump({"property": PID, "obligation": j.name + ":" + f["name"], "desc": f["desc"], "program": info[j.name.replace(".known-class", "")], "cex": f.get("cex", {}), "real_code_result": rr}, open(p, "w"), indent=1)
                    chk.add_violation(j.name + ":" + f["name"], p, f["desc"] + "; real xcmp+hexsim: " + str(rr.get("why")), rr.get("ok") is False)
            elif r["status"] != "proved":
                chk.undecided.append("%s: %s %s" % (j.name, r["status"], r.get("error", "")))
            continue
        if j.kind != "proof" or r["status"] != "failed":
            continue
        for f in r["failed"][:1]:
            prog = info[j.name]
            rr = native_replay(chk, xcmp, {"program": prog, "cex": f.get("cex", {})})
            p = chk.replay_path(j.name)
            json.dump({"property": PID, "obligation": j.name + ":" + f["name"], "desc": f["desc"], "program": prog, "cex": f.get("cex", {}), "real_code_result": rr,
                       "how": "./check C07 --replay " + p}, open(p, "w"), indent=1)
            chk.add_violation(j.name + ":" + f["name"], p, "%s; real xcmp+hexsim: %s" % (f["desc"], rr.get("why")), rr.get("ok") is False)
    # known-class jobs are not proof jobs: drop them from the infra scan when they failed as expected
    for j in jobs:
        if j.kind == "known":
            j.kind = "known-split"
    return chk.finish()


CALL_TEMPLATE = """val put = 1;
%(decl)s
var count;
var v;
array arr[4];
func tick() is
{ count := count + 1
; put('t', 0)
; return 1
}
func id(val a) is return a
proc main() is
  var r;
{ %(init)s
; count := 0
; v := 7
; r := %(expr)s
; put('0' + count, 0)
; 0((count + count + count + count) + (r + 8))
}
"""


def call_stage(chk, xcmp):
    """NATIVE stage (real xcmp + real hexsim, concrete programs): operands that are function calls -- out of reach of the
    path-exploring back end -- with the constant supplied as a `val` or through a variable assigned at run time.  Output
    (every call prints) and exit status must agree; in particular a call must not disappear because the other operand of a
    logical operator is known at compile time."""
    hexsim = os.path.join(chk.out, "hexsim_real")
    hv.build_native(os.path.join(hv.REPO, "hexsim.cpp"), hexsim, extra=[os.path.join(hv.REPO, "hex.cpp")], opt="-O0", hooks=False)
    exprs = []
    for k in (0, 1):
        exprs += [("tick() and c", k), ("c and tick()", k), ("tick() or c", k), ("c or tick()", k), ("1 + (tick() and c)", k), ("~(tick() or c)", k), ("(tick() and c) or tick()", k)]
    for k in (0, 5, -3, 100, 70000):
        exprs += [("c - id(v)", k), ("id(v) - c", k), ("c + id(v)", k), ("c < id(v)", k), ("id(v) < c", k), ("c >= id(v)", k), ("id(v) <= c", k), ("c > id(v) + tick()", k), ("(c + 1) - id(v)", k)]
    # conditions of `while` and `if` that are known at compile time (a constant-false loop must be skipped, a constant-true
    # loop must still run its body): the statement is put where the expression assignment was
    stmts = []
    for k in (0, 1):
        stmts += [("while c do { count := count + 1; if count = 3 then 0(count + 40) else skip }", k),
                  ("if c then count := 5 else count := 6", k), ("if ~c then count := 5 else count := 6", k),
                  ("while c and (count < 2) do count := count + 1", k), ("while (count < 2) and c do count := count + 1", k)]
    for k in (1, 2, 5):
        stmts += [("while c - 1 do { count := count + 1; if count = 3 then 0(count + 40) else skip }", k),
                  ("while c < 2 do { count := count + 1; if count = 2 then 0(50) else skip }", k),
                  ("if (c + 1) - 2 then count := 5 else count := 6", k)]
    # array elements with a subscript known at compile time, on both sides of an assignment, next to right-hand sides
    # that need both registers
    zero = "arr[0] := 0; arr[1] := 0; arr[2] := 0; arr[3] := 0; "
    for k in (0, 2):
        stmts += [(zero + "arr[c] := v + 35; count := arr[%d]" % k, k), (zero + "arr[c] := id(v) - 3; count := arr[%d]" % k, k),
                  (zero + "arr[c + 1] := v + v; count := arr[%d] + arr[0]" % (k + 1), k), (zero + "arr[1] := 9; arr[c] := arr[1] + v; count := arr[c] - arr[1]", k),
                  (zero + "arr[c] := (v < 9) + (v + 1); count := arr[c]", k)]
    items = [(e, k, "r := %s") for e, k in exprs] + [(s, k, "%s; r := 0") for s, k in stmts]
    bad, n, first = 0, 0, None
    for i, (e, k, shape) in enumerate(items):
        outs = []
        for mode in ("val", "var"):
            src = (CALL_TEMPLATE.replace("r := %(expr)s", shape % "%(expr)s")) % {"decl": "val c = %s;" % lit(k) if mode == "val" else "var c;", "init": "count := 0" if mode == "val" else "c := %s" % lit(k), "expr": e}
            d = os.path.join(chk.out, "calls", "%d.%s" % (i, mode))
            os.makedirs(d, exist_ok=True)
            open(os.path.join(d, "p.x"), "w").write(src)
            rc, o, er, _ = hv.run([xcmp, "p.x"], cwd=d, timeout=60)
            if rc != 0 or not os.path.exists(os.path.join(d, "a.out")):
                outs.append(("xcmp failed", rc, (o + er)[-200:]))
                continue
            rc, o, er, _ = hv.run([hexsim, "a.out", "--max-cycles", "200000"], cwd=d, timeout=60)   # a loop that never ends is cut short here (status 0, no exit call)
            outs.append((o, rc))
        if any(x[0] == "xcmp failed" for x in outs):
            if outs[0][0] != outs[1][0]:
                pass   # one variant rejected, the other not: treated as a difference below
            else:
                continue   # both rejected (or crashed) alike: not this property's business
        n += 1
        if outs[0] != outs[1]:
            bad += 1
            if first is None:
                first = {"expression": e, "constant": k, "as_val": list(outs[0]), "as_var": list(outs[1])}
    rec = {"stage": "real xcmp + real hexsim on expressions whose operands are function calls, on while/if statements whose condition is known at compile time, and on array elements with a compile-time subscript (constant as `val` vs assigned variable): output and exit status compared", "programs": n, "differences": bad, "first": first}
    chk.native.append(rec)
    if bad:
        p = chk.replay_path("native-calls")
        json.dump({"property": PID, "obligation": "native call-operand stage", "real_code_result": first,
                   "program_template": CALL_TEMPLATE, "how": "compile the template with `val c = K;` and with `var c; ... c := K`, run both on hexsim"}, open(p, "w"), indent=1)
        chk.add_violation("native-calls", p, "`%s` with c = %d: constant as val gives %s, the same value in a variable gives %s" % (first["expression"], first["constant"], first["as_val"], first["as_var"]), True)


def native_replay(chk, xcmp, d):
    """run the real compiler + real hexsim on the concrete operand values of a counterexample: constants variant vs variables"""
    prog = d["program"]
    cex = d.get("cex", {})
    def val(k):
        try:
            v = hv.parse_c_int(cex.get(k, "0"))
        except ValueError:
            v = 0
        return v - (1 << 32) if v >= (1 << 31) else v
    exe = os.path.join(chk.out, "c07_native")
    if not os.path.exists(exe):
        hv.build_native(os.path.join(hv.VERIF, "native", "c07_native.cpp"), exe, extra=[os.path.join(hv.REPO, "hex.cpp")], opt="-O0")
    if "source" in prog:
        a, b = val("cex_a"), val("cex_b")
        srcV = prog["source"]
        # the folded value must be consumed as a constant: route it through a `val` (OptimiseExpr rewrites a top-level
        # ~=, >=, >, <= node into run-time code and drops its folded value)
        mexp = re.search(r"0\((.*)\)\s*$", srcV.strip())
        e = re.sub(r"\bb\b", lit(b), re.sub(r"\ba\b", lit(a), mexp.group(1)))
        srcL = "val k = %s;\nproc main() is 0(k)\n" % e
        args = ["ops", srcL, srcV, str(prog["vars"][0]), str(a)] + ([str(prog["vars"][1]), str(b)] if len(prog["vars"]) > 1 else [])
    else:
        v = val("cex_v")
        args = ["shape", prog["literal"], prog["variables"], str(v)] + [str(c) for c in prog["constants"]]
    rc, o, e, _ = hv.run([exe] + args, timeout=120, cwd=chk.out)
    try:
        return json.loads(o.strip().splitlines()[-1])
    except Exception:
        return {"ok": None, "error": (o + e)[-500:]}
